#!/usr/bin/env python3
"""Regenerates /verif/MANIFEST.json from the table below (single source of truth)."""
import json, os, sys
HERE = os.path.dirname(os.path.dirname(os.path.abspath(__file__)))

CHECKS = {
 "C16": dict(
    category="model_checking",
    text="TLC proves on specs/ObjectOrder.tla that the orderings as written equal the documented ones and are strict weak "
         "orders (all triples of the grid), and that the CheckOrder register machine accepts exactly the strictly ascending "
         "streams (unbounded length). The code is bound by replaying the complete 648x648 comparison matrix and every "
         "CheckOrder sequence exported by TLC on real objects with the extreme values.",
    design_ref="DESIGN.md section 4, C16",
    note="ids/versions/timestamps are rank tokens instantiated with the boundary values of the property's grid; values "
         "between the grid points are not enumerated. Triple laws are proved at spec level and transferred through the complete pair matrix.",
    technique="TLA+ spec + TLC exhaustive check; spec-to-code replay of the TLC-exported comparison matrix and CheckOrder sequences"),
 "C19": dict(
    category="model_checking",
    text="TLC explores every interleaving of specs/ThreadQueue.tla (one action per critical section of queue.hpp/pool.hpp, "
         "the unlocked m_in_use accesses and condition-variable waits as separate steps) for FIFO/no-loss/no-duplicate while "
         "in use, the size bound, deadlock freedom, liveness under weak fairness (shutdown wakes every consumer; pool "
         "terminates), and exactly-once task execution. Executions of the real Queue/Pool recorded through OSMIUM_VERIF "
         "hooks at the linearization points under a seeded schedule perturbation are validated against the spec "
         "(ThreadQueueTrace.tla), every invariant evaluated at every step; scenarios include several try_pop callers racing "
         "on a nearly empty queue, one named task object submitted repeatedly, and 20000 (thorough 80000) shutdown storms.",
    design_ref="DESIGN.md section 4, C19",
    note="All interleavings are enumerated on the spec (2-3 threads per role, 2-4 items); on the real code schedules are "
         "perturbed and every observed execution validated, not enumerated. Trusted: std::mutex/condition_variable/"
         "packaged_task semantics, the hook placement (under the queue mutex, after the change).",
    technique="TLA+ spec + TLC (safety, deadlock, liveness); trace validation of recorded real executions against the spec"),
 "C04": dict(
    category="model_checking",
    text="specs/Buffer.tla models the buffer bookkeeping (capacity/written/committed, the frozen chain of auto_grow::internal, "
         "offsets of open builders relative to the committed mark, size propagation through all parents, padding) and the "
         "content passed in; TLC checks that header sizes equal the layout size of the content, that builder offsets stay "
         "valid under every reserve_space outcome, and that commit/rollback/clear/purge act on exactly the documented data. "
         "Every history TLC exports (all of bounded depth plus simulated long ones, x initial capacity 64..256 x growth mode) "
         "is replayed on the real Buffer and builders under ASan/UBSan and the complete item sequence with content is "
         "compared after every call. An extension (specs/BufferExt.tla, harness/bufferext_replay.cpp, checks/C04ext.py) adds: "
         "Area objects built with AreaBuilder/TagListBuilder/OuterRingBuilder/InnerRingBuilder in any order and number, with the "
         "ring structure compared through Area::num_rings/is_multipolygon/outer_rings/inner_rings(outer), and scripted building "
         "sequences exported over every initial capacity 64..280 so that each single reserve_space of each builder call is a "
         "growth point; osmium::memory::CallbackBuffer (possibly_flush fires iff a callback is set and committed() > "
         "max_buffer_size, flush iff something is committed, read always; the receiver gets exactly the committed items in "
         "order; TLC checks conservation/order of everything committed and the firing rule); the nested-buffer chain of "
         "auto_grow::internal kept in place with get_last_nested as an action, set_removed/purge_removed in all three growth "
         "modes and on taken-out nested buffers, commit()/clear() return values, swap/move carrying the chain; "
         "add_buffer/push_back/full members while a builder is open on the source buffer and moves while builders are open.",
    design_ref="DESIGN.md section 4, C04",
    note="Histories are bounded (exhaustive to depth 9 / 5, simulated to depth 30; extension: bounded BFS + three directed "
         "scripts over every capacity 64..280); strings are lengths in the spec (bytes re-checked by the harness); capacity "
         "after growth is not compared, but under auto_grow::internal the partition of committed items into current block and "
         "nested buffers follows the code's documented policy and is observed through has_nested_buffers/get_last_nested/"
         "set_removed; purge_removed is modelled as acting on the current memory block only (removed items frozen into nested "
         "buffers stay until that buffer is purged) and CallbackBuffer hand-over as taking uncommitted bytes along; "
         "add_buffer/push_back/swap/flush with builders open on the destination (forbidden by documented preconditions), "
         "AreaBuilder as a sub-builder, changesets in the extension, and copying an item into the buffer it lives in are not covered.",
    technique="TLA+ spec + TLC; spec-to-code replay of exported API histories with per-step state comparison"),
 "C15": dict(
    category="model_checking",
    text="Four specs (IdSetDense, IdSetSmall, RelationsMap, ItemStash) each carry the implementation-shaped state (chunk "
         "vector and skipping iterator; vector with sort_unique/merge; the 32/64 bit flat maps and the three index builders; "
         "buffer + offset index + counters + should_gc + the purge cursor walk) next to the mathematical set/map, and TLC "
         "checks I => A over all bounded histories. TLC-exported histories are replayed on the real containers (several "
         "instantiations incl. the top of the uint32 range and ids beyond 2^32) comparing every return value, size, "
         "ascending iteration, lookup list and every live handle's content. An extension (five ContainersExt* specs, "
         "checks/C15ext.py, harness/containersext_replay.cpp) treats the containers as values and adds what the base specs leave "
         "out: two IdSetDense / IdSetSmall objects with copy and move construction, copy and move assignment (also onto a "
         "non-empty set and onto itself), swap, unset() on never-allocated chunks, iteration after clear(), merge_sorted() with "
         "itself / empty / overlapping operands; nwr_array<IdSetDense|IdSetSmall> as three independent sets reached through "
         "operator()(type), nodes()/ways()/relations() and begin()..end(); RelationsMapStash with ids exactly at 2^32-1 and 2^32, "
         "size()/empty()/sizes(), add_members(), stash and indexes as movable values, every builder on every stash including the "
         "empty one; ItemStash with the REAL should_gc() thresholds (a model entry is a block of 1000 / 999 / 1 add_item() calls: "
         "collection exactly at 10000 removed, at the start and in the middle of a block, the removed/live ratio deciding between "
         "collecting and doubling), clear() and reuse, buffer growth, used_memory() against the capacity the spec predicts. Every "
         "exported history is replayed in a build with and a build without the library's assertions.",
    design_ref="DESIGN.md section 4, C15",
    note="Scaled-down geometry embedded border-preservingly into the real id space; ItemStash GC threshold lowered through "
         "the OSMIUM_VERIF_STASH_GC_MIN hook in the base part; histories bounded (depth 7-14). Extension: a moved-from IdSetDense is "
         "treated as unspecified until cleared or assigned to; used_memory() of the id sets is only bracketed and required not to "
         "shrink under element-wise calls; should_gc()'s 5 000 000 limit is not reached; NWRIdSet and RelationsMap::used_memory() do "
         "not exist in this libosmium version; simulated histories are seeded, the exhaustive part is bounded (5-8 calls, 4-6 ids).",
    technique="TLA+ specs + TLC refinement check; spec-to-code replay of exported histories with per-call comparison"),
 "C11": dict(
    category="model_checking",
    text="specs/RelMgr.tla models the relations database countdown, the sorted members databases with removed marks, the "
         "stash, MembersDatabase::add's range walk with completion on the spot and MembersDatabaseCommon::remove, next to a "
         "set-based model (which relation must complete at which object, what is retrievable when, what is incomplete); TLC "
         "checks agreement over all scenarios within the bounds. Exported scenarios (exhaustive small, simulated larger) are "
         "replayed on all eight RelationsManager instantiations; callbacks, member retrievability inside the callback, lookups "
         "of every known id afterwards, pending count and the incomplete list are compared after every call. Families: padded "
         "members (stash GC in the middle), negative ids in file order, and 'wide' (one tracked member-list entry listed 2^8 / "
         "2^16 times: the countdown and the members database range beyond TLC's list lengths).",
    design_ref="DESIGN.md section 4, C11",
    note="Bounds: <=3 relations, <=4 members, 6 member refs incl. relation-in-relation, 9 stream objects; sorted distinct "
         "streams only; MultipolygonManager only through its RelationsManager base; output-buffer flush thresholds not varied.",
    technique="TLA+ spec + TLC refinement check against a set-based model; spec-to-code replay of exported scenarios"),

 "C14": dict(
    category="model_checking",
    text="Escaping.tla: A-layer = documented OPL pass-through interval table and %hex% form, XML entity table, structural sets, "
         "UTF-8, cut-off/invalid as segmentation by lead byte; I-layer = the code's loops (strlen, utf8_sequence_length, length "
         "check, next_utf8_codepoint masks, nibble-wise hex, opl_parse_string/opl_parse_escaped, append_codepoint_as_utf8, XML byte "
         "loop) plus expat as environment. TLC: I=>A, exact round trip with the parser stopping before every separator, no "
         "structural character, injectivity (image set as large as the domain), no over-read, exception <=> cut-off; exported "
         "table uniform over all 1.1M code points. Replay: every scalar value against the exported table through the real "
         "escape/parse functions and expat; every exported string (all to length 3/4 over the structural alphabets, interval "
         "bounds +-1, simulated long strings) call by call and end to end through OPLOutputBlock/opl_parse_line and "
         "XMLOutputBlock/expat; byte strings of length 1-4 in right-sized heap blocks under ASan against the exported verdict table.",
    design_ref="DESIGN.md section 4, C14",
    note="Scalar values exhaustive; strings exhaustive to length 3 (quick) / 4 (thorough) over 11- and 13-symbol structural "
         "alphabets plus bounds+-1 pairs and <=24-code-point simulated strings. Byte strings: lengths 1-2 all, 3 all in thorough, "
         "length 4 strided (61 thorough / 4093 quick), NOT all 2^32; all strings over the 14 class-boundary bytes always. The spec "
         "shows the verdict depends only on the lead-byte class. expat 2.5 stands for 'the XML parser'. The XML round trip fails "
         "for code points XML 1.0 cannot carry: known finding F14b. Debug escaping is only covered for over-read/exception.",
    technique="TLA+ spec (A/I layers, TLC exhaustive + simulation); TLC-exported table/behaviours/verdicts replayed on the real functions under ASan+UBSan"),
 "C20": dict(
    category="model_checking",
    text="specs/Dispatch.tla states what every handler is to see (A-layer: per item in iterator order, per handler in "
         "argument order, generic object callback then exactly the matching callback, one flush per handler; wrapped "
         "function objects exactly the objects they accept) and models apply_impl's loop nest (type-filtering ItemIterator, "
         "InputIterator refill, pack expansion, the switch of each apply_item_impl overload, DynamicHandler/wrapper_handler/"
         "ChainHandler forwarding); specs/DiffIter.tla models DiffIterator's three cursors, set_diff, operator++ and "
         "apply_diff's handler recursion against 'every version once with its neighbours of the same (type,id), first/last "
         "exactly at object boundaries'. TLC checks I => A, cursor safety and termination for all item sequences / sorted "
         "histories within the bounds and exports every case with its log; the harness runs every case on the real "
         "apply/apply_diff/DiffIterator with real handler objects (14 handler kinds, 10 containers incl. a real Reader, all "
         "buffer cuts for input iterators) and compares the complete callback log (slot, callback, item by address, "
         "const-ness / prev, curr, next, first, last, end_time). Extension, rule-list filters (specs/TagRules.tla, "
         "harness/tagrules_replay.cpp, checks/C20ext.py): A-layer = the first rule whose matcher matches the tag decides with its "
         "result, otherwise the default result (matching defined on strings as sequences: equal, prefix, substring, list, regex "
         "search; TagMatcher = key matches and (no value matcher or (value matches != invert))); a filter iterator over a TagList "
         "yields exactly the passing tags in order and match_any_of/all_of/none_of are the quantifiers over them. I-layer = the "
         "rule loop with its early return, CollectionFilterIterator's constructor/advance()/operator++, the legacy Filter's rule "
         "record, TagMatcher's members, StringMatcher's converting constructors filling a variant and the visitor dispatch onto "
         "strcmp/compare/strstr/any_of loops. TLC checks I => A on every state plus termination and exports every case; the "
         "harness builds the real KeyFilter/KeyValueFilter/KeyPrefixFilter/TagsFilter and a real TagList and compares the boolean "
         "per tag, the yielded tags with ++it and it++, distance/count_if, the quantifiers, every rule's matcher and every "
         "StringMatcher through both call operators.",
    design_ref="DESIGN.md section 4, C20",
    note="Bounds: item sequences <= 2 (quick) / <= 3 (thorough; <= 4 for the Reader) over all 13 item types (+ removed items); "
         "handler lists: every kind alone, all ordered pairs of 6 kinds, 9 lists of length 3-4 (template combinations are fixed "
         "at compile time, not all 14^4); histories: 5 keys x <= 3 versions, <= 3 buffers. Named deviations modelled as the code "
         "has them (handlers inside DynamicHandler/ChainHandler get no osm_object/sub-item callbacks; removed items are "
         "dispatched; apply_diff has no flush and throws at the first area). Known finding F20c (closure taking const "
         "memory::Item& is never called) is reported as KNOWN-FINDING. Reader cases limited to node/way/relation/changeset. "
         "Extension bounds: strings over two characters up to length 3 incl. the empty string; rule lists <= 3 and tag lists <= 3; "
         "the complete product only for small template alphabets, larger alphabets as 'long rule list x one tag' and 'one rule x "
         "long tag list'; std::regex itself is not modelled (literal patterns with '.', '^', '$', the harness checks regex_search "
         "agrees); StringMatcher::substring modelled as code and unit tests have it (its doc comment says the opposite); thorough "
         "replays on a second build with -std=c++17 and assertions.",
    technique="TLA+ spec + TLC exhaustive check (refinement invariants, deadlock); spec-to-code replay of all TLC-exported cases with full log comparison"),
 "C17": dict(
    category="model_checking",
    text="specs/GeomFactory.tla models GeometryFactory's loops (unique/all x forward/backward fill loops, add_points, the "
         "create_multipolygon ring/polygon loop) driving WKBFactoryImpl as written (m_data as typed fields, the four *_size_offset "
         "registers, m_points/m_rings/m_polygons, set_size back-patching) and the WKT/GeoJSON string builders (token list with the "
         "overwrite-last-character idiom), with all registers persisting across calls on one factory object, next to the A-layer "
         "(expected coordinate sequence, ring grouping, minimum point counts, rejection of undefined/invalid locations). TLC checks "
         "I => A with spec-level decoders that require every count field to equal the elements that follow, for every node list of "
         "0..5 entries over {p,q,r,undefined,invalid} (0..7 over valid tokens) x modes, every area up to 3 outer x 2 inner rings "
         "(4x1, 2x3 in thorough), and all histories of 3-4 calls over a small domain. specs/GeomNum.tla models double2string on values "
         "with an exact decimal expansion for precision 0..17. Every exported input/history is replayed on the real WKB, EWKB, hex, "
         "WKT, EWKT, GeoJSON (and RapidJSON) factories with identity and Web-Mercator projection; every output is decoded by "
         "independent readers in the harness and must equal the spec's tree; rejection class compared for degenerate inputs.",
    design_ref="DESIGN.md section 4, C17",
    note="Text coordinates of arbitrary doubles are only required to lie within half a unit of the requested digit and to have at "
         "most that many digits; exact text is compared for values +-(n + k/8) up to 2^28 only (binary->decimal rounding is not "
         "expressible in TLC). Mercator expectations use osmium's own projection object (its accuracy is C18). Location tokens are "
         "mapped by three fixed valuations (small, range borders, 7-digit; areas also by a fourth in which all rings share their locations). Area rings are non-empty and assembler-shaped apart from "
         "injected duplicate/undefined/invalid locations; ring-size validation in create_multipolygon is outside the quantifier. "
         "Quick tier uses one valuation and one non-default precision per case. GEOS/OGR factories not run (libraries not installed).",
    technique="TLA+ specs + TLC refinement check (exhaustive small domains, simulation for call histories); spec-to-code replay "
              "with independent WKB/EWKB/hex/WKT/GeoJSON decoders"),
 "C12": dict(
    category="model_checking",
    text="TLA+ specs IndexMap (A-layer: one partial function id->value, the sort-before-lookup contract, dump contents) + "
         "IndexDense/IndexSparse/IndexFlexMem/NodeLocWays (I-layers: mmap_vector size/capacity/fill, push_back+std::sort+"
         "lower_bound, dump_as_array windowing, FlexMem sparse/dense switch with carry-over, m_last_id/m_must_sort); TLC checks "
         "I=>A exhaustively for all insertion orders with small geometry and on every exported history with the real geometry "
         "(block 2^16, growth 2^20, window 1310720); histories are replayed on all nine registered map types through MapFactory "
         "(plus named-file variants, dump->reload via create_map_with_fd, reopen) and on NodeLocationsForWays, every "
         "get/get_noexcept, dump byte and way location compared with the spec. Extension (checks/C12ext.py): MemoryMapping.tla "
         "models osmium::MemoryMapping/AnonymousMemoryMapping/TypedMemoryMapping with file_size/resize_file (A: a window onto a "
         "zero-extended byte array - contents of the common prefix survive resize, new bytes read zero, the file is extended to "
         "exactly offset+size and never shrunk, nothing is mapped after unmap, std::system_error exactly for a bad descriptor, a "
         "non-writable descriptor that needs growth or a shared mapping, an offset that is no page multiple; I: "
         "fstat/ftruncate/mmap/munmap/mremap with page granularity, COW bytes, SIGBUS zone), MemoryMappingVector.tla models "
         "mmap_vector_base/_anon/_file directly (size/capacity arithmetic with the 2^20 increment, fill, at(), clear, "
         "shrink_to_fit, reopening the file, the file length check) and IndexMultimap.tla models every class in index/multimap/ "
         "(A: one bag of <id,value> pairs; I: vector with tombstones + equal_range + std::sort, std::multimap, Hybrid with its "
         "iterator). TLC checks I=>A exhaustively (page size 4 / increment 3 / 2-3 ids) and on every exported history with page "
         "4096 (sizes 4095/4096/4097, multi-page growth, shrink, zero); histories are replayed on the real classes with real "
         "temporary files, every byte of window and file, size/capacity/at()/raw slots, get_all() bags and dumped lists compared.",
    design_ref="DESIGN.md section 4, C12",
    note="ids of a history are distinct; values are insertion ordinals mapped to Locations (first one is Location{0,0}); ids >= "
         "2^32 are order-preserving tokens; dense types only with ids < 4194304 (memory); most cases run on 6 of the 10 variants "
         "in rotation, every 8th (quick) / 4th (thorough) on all; FlexMem threshold lowered to 3 by the "
         "OSMIUM_VERIF_FLEXMEM_MIN_DENSE hook, the real 0xffffff threshold and 1Mi-element mmap growth of sparse indexes only in "
         "the thorough tier via 3 bulk patterns chosen by TLC at 2^20-id granularity; size()/used_memory()/is_dense() not "
         "compared; clear() outside the histories; thorough replays a seeded sample of the exported histories. Extension: one "
         "mapping object at a time per descriptor; ENOSPC branch of resize_fd, out-of-memory mmap/mremap failures, resize(0), "
         "resize() after unmap() not driven; bytes an anonymous mapping wrote beyond a later shrink are unspecified when "
         "re-exposed; a write_private FILE mapping loses its changes on resize and mmap vectors keep slot values across "
         "clear()/shrinking resize (both modelled as implemented); multimap entries holding empty_value<TValue>() are no "
         "entries, values compared as bags; nwr_array/NWRIdSet not modelled.",
    technique="TLA+ specs + TLC refinement check; behaviour export (BFS and simulation) + step-wise replay on the real code under ASan/UBSan"),

 "C13": dict(
    category="model_checking",
    text="TLA+ specs NumTextCoord/NumTextCoordFmt/NumTextTime/NumTextInt: each conversion has an A-layer (what the text means, exact "
         "positional arithmetic on digit sequences because TLC integers are 32 bit) and an I-layer (the code's scanner/formatter as a "
         "state machine, one action per statement or loop iteration: string_to_location_coordinate, "
         "append_location_coordinate_to_string, parse_timestamp/fractional_seconds/to_iso_str with timegm/gmtime_r as environment, "
         "opl_parse_int<T>, the strtoll/strtoul wrappers, output_int). TLC checks I => A, absence of int64 overflow and over-reads, "
         "and the round-trip theorems parse(format(x)) = x on every string an on-the-fly environment can feed the scanner (all "
         "scanner-directed strings over a reduced alphabet to length 6/7), on grammar-directed long strings (digit-count limits, "
         "8th/9th fraction digit, exponents to 99999), on a boundary grid of every timestamp field incl. malformed variants, and on "
         "all short integer strings plus strings around 2^31, 2^32, 2^63, 2^64. Every terminal state is exported as <input, demanded "
         "result> and replayed on the real functions (set_lon/set_lat[_partial], as_string, Timestamp(..), parse_timestamp, to_iso, "
         "opl_parse_*, string_to_*, str_to_int, output_int) comparing value, rest pointer and exception class under ASan/UBSan.",
    design_ref="DESIGN.md section 4, C13",
    note="Exhaustive only for scanner-directed strings up to length 6 (quick) / 7 (thorough) over an 8 resp. 11 symbol alphabet and "
         "for the grammar-directed boundary sets; the infinite language and the full digit alphabet are not enumerated. The accepted "
         "grammar includes libosmium's documented bounds (<=10 integer, <=27 fraction, <=5 exponent digits). Timestamp(const char*) is "
         "modelled as the prefix parser it is (nothing behind the Z is checked), with 29-day Februaries and second 60; well-formed "
         "dates outside the uint32 range are not compared. strtoll/strtoul/timegm/gmtime_r are environment models of the C contract. "
         "The sweeps over the 2^32 coordinates and 2^32 timestamps (strided in quick, complete in thorough) run the spec's "
         "round-trip theorem on the implementation and are reported separately; they are not what the level claim rests on.",
    technique="TLA+ specs + TLC exhaustive I=>A refinement check; spec-exported cases replayed on the implementation; round-trip theorem sweep"),
 "C06": dict(
    category="model_checking",
    text="specs/Chunking.tla models the delivery of one byte stream in arbitrary consecutive pieces through the parser's input "
         "queue (get_input/input_done); four modules extend it with the carry-over code as written: LineByLine (OPL rest), "
         "PbfRefill (m_input_buffer, ensure_available/pop, EOF-in-length rule), O5mRefill (m_input, m_data/m_end offsets, "
         "ensure_bytes_available with its erase/append/re-point order, real sizes 7 and 10) and XmlFeed (expat feed with the final "
         "flag). TLC checks for every stream within the bounds and EVERY segmentation that tokens+verdict equal a function of the "
         "bytes alone and that the window holds exactly the received, unconsumed bytes; the pre-fix variants of OPL and o5m must "
         "violate the invariants (vacuity guard). Exported (stream, pieces, expected tokens/verdict) are materialised as real "
         "OPL/PBF/o5m/XML files and read by Reader through a mock Decompressor that returns exactly those pieces; line_by_line() is "
         "also driven directly byte for byte. Header, full object dump and error class/message are additionally compared with the "
         "one-piece run for every single cut, pairs of cuts, fixed sizes, random cut sets and every truncation of the fixture files "
         "and generated files; thorough also reads through the real plain/gzip/bzip2 fd decompressors with piece size 1 and 7.",
    design_ref="DESIGN.md section 4, C06",
    note="Bounds: streams <= 5 (thorough 7) abstract bytes for OPL, <= 3 PBF frames, <= 2-3 o5m datasets, <= 4 XML elements; PBF/XML "
         "model bytes map proportionally onto real fields; expat is an assumed environment contract, not modelled; on errors only "
         "class/message (and completed PBF blobs) are compared with the spec, everything else with the one-piece run; the sweeps on "
         "real files apply the spec's theorem differentially (oracle = one-piece run); PBF read directly from a file descriptor is "
         "outside (not piece based).",
    technique="TLA+ specs + TLC invariant check over all segmentations; spec-to-code replay through a mock Decompressor; "
              "differential sweeps justified by the checked theorem"),
 "C09": dict(
    category="model_checking",
    text="specs/Decompress.tla: A-layer = reference decompressor over a file of 1..3 concatenated streams (all payloads, or error "
         "for a file cut inside a stream / with a corrupted byte); environment modules for one inflate/BZ2_bzDecompress stream "
         "object (avail_in left over, STREAM_END with or after the last byte), libbz2's BZ2_bzRead/GetUnused over a FILE* with "
         "R-byte read blocks and the stdio EOF indicator, and zlib's gzread/gzclose_r (members, short count + Z_BUF_ERROR at "
         "close, transparent mode, the EOF shortcut); I-layer = Bzip2Decompressor::read, GzipDecompressor::read/close, both "
         "buffer decompressors and ReadThread's 'empty string ends the input'. TLC checks I => A (complete output, empty piece "
         "only at the true end, offset <= file size, every truncation and corruption is an error, round trip, termination) for "
         "every layout around the scaled boundaries, and rejects the pre-fix algorithms (Algo=legacy). The exported layouts are "
         "made concrete (real gzip/bzip2 streams; payloads at multiples of the piece size +-1; bzip2 streams ending exactly on / "
         "next to libbz2's 5000 byte block boundary) and replayed on the four real decompressors through a read() loop and "
         "through ReadThreadManager, plus the library's own compressors for the round trip.",
    design_ref="DESIGN.md section 4, C09",
    note="Scaled constants (R=3 for 5000, B=2 for the piece size); piece size 8192 via OSMIUM_VERIF_INPUT_BUFFER_SIZE (thorough: "
         "also the real 1 MiB on a subset), payloads <= 2.5 pieces per stream, <= 3 streams; one corrupted byte, counted only "
         "if Python's reference decompressor notices it; empty files and trailing garbage are outside the file model; the "
         "library contracts in the environment modules were probed, not proven; zlib's internal 16 KiB buffer is not "
         "modelled (its effect is classified by a bare-zlib probe). Open findings F3c/F3d (zlib gz layer).",
    technique="TLA+ spec with environment modules + TLC invariant/liveness check; spec-to-code replay of exported file layouts "
              "and faults on the real decompressors with the spec's A-layer as oracle"),
 "C05": dict(
    category="model_checking",
    text="specs/ReaderPipeline.tla models the four-party protocol behind osmium::io::Reader (read thread, parser thread, pool "
         "workers completing futures in any order, consumer) with one action per step of reader.hpp / read_thread.hpp / "
         "input_format.hpp / queue_util.hpp over the queue interface verified in C19, next to the A-layer Expected(cfg): the "
         "consumer-visible log as a function of (file, entity selection, consumer script) - blocks in file order, nested buffers "
         "oldest first, unselected blocks skipped, end-of-data marker, then failing reads. TLC checks under every interleaving, "
         "queue bound, pool/no pool, fd mode that the log equals Expected(cfg). Binding: TLC-exported configurations run on the "
         "real Reader under seeded schedule perturbation (hooks in queue/pool): mock decompressor+parser with nested buffers and "
         "out-of-order pool completion and real PBF files through the real PBF parser - API log == Expected(cfg) and the recorded "
         "event trace (queue hooks, read(2) interposition, mock events, API calls) validated by TLC against "
         "ReaderPipelineTrace.tla; real XML/OPL/PBF files (every second one a history file with deleted versions, whose visible "
         "flag must arrive with and without read_meta) written by the library with every entity selection, read_meta on/off, "
         "buffers_type any/single, pool sizes 1/2/4, queue bounds 2/3/20 - flattened object sequence == the selected objects of the "
         "model's file in order, complete when the end marker was returned.",
    design_ref="DESIGN.md section 4, C05/C07",
    note="All interleavings are enumerated on the spec (<= 3 chunks, <= 3 nested buffers, queue bounds 1-3); on the real code "
         "schedules are perturbed (seeded), every observed execution validated. Files have <= 4 blocks of one entity type each "
         "(x up to 20000 objects per nested buffer in the thorough tier); o5m is read-only in libosmium and covered by C02/C06; "
         "entity selection is modelled at block granularity; read_meta=no is honoured only by the PBF parser - for the others the "
         "check accepts metadata present (the property only says nothing else changes). Pool sizes up to 4, not 32.",
    technique="TLA+ spec + TLC (all interleavings, refinement of Expected(cfg)); spec-to-code replay of exported configurations; "
              "trace validation of recorded executions against the spec"),
 "C07": dict(
    category="model_checking",
    text="Same spec as C05 (specs/ReaderPipeline.tla) with the fault and stop dimensions: the j-th decompressor read throws, "
         "decompressor close throws, the parser throws before/after the header at chunk m, the pool task of block m throws, "
         "file truncated/corrupted at blob m (real PBF), input incomplete for its format (fault 'end': mock parsers, real XML "
         "document cut short and fed through the input queue), consumer scripts over header/read/readall/close + destructor. TLC "
         "checks for every configuration and every interleaving: log == Expected(cfg) (first error reported exactly once from "
         "header()/read(), nothing delivered after it, reads after eof/close/error fail), no deadlock, termination under weak "
         "fairness (FairSpec), at most the in-flight read after close() (read thread and fd-reading parser), header promise set "
         "exactly once, no thread and no descriptor left when the Reader is gone. Binding: exported configurations run on the real "
         "Reader with faults injected through the factory seams (mock decompressor/parser) and by truncating/corrupting real PBF "
         "files, under seeded schedule perturbation; API log compared with Expected(cfg), leaked threads/descriptors counted "
         "from /proc, a watchdog reports hangs, and every recorded execution (queue hook events, read(2) interposition on the PBF "
         "descriptor, mock events, API call/return) is validated by TLC against ReaderPipelineTrace.tla.",
    design_ref="DESIGN.md section 4, C05/C07",
    note="One fault per configuration; header() after close() is outside the scripts (its result legitimately depends on how far "
         "the parser got). 'Reads nothing more after close' is formalised as: the read thread starts at most one more read after "
         "close() was called and none after it returned; the PBF parser reading the descriptor itself starts at most one more "
         "blob (two when the header blob is still being read) after the output queue was shut down. Real schedules are perturbed, "
         "not enumerated. zlib/expat internals are environment. Found and fixed F6 (PBF parser read the whole file after close) "
         "and F7b (descriptor leak on PBF parse error).",
    technique="TLA+ spec + TLC (safety, deadlock, liveness under fairness); spec-to-code replay with fault injection; trace "
              "validation of recorded executions against the spec"),

 "C08": dict(
    category="model_checking",
    text="specs/WriterPipeline.tla: user thread (operator()(Buffer), operator()(Item) with the internal buffer and flush-on-full, "
         "flush, close, destructor; status okay/error/closed; notification flag polled in do_flush; ensure_cleanup), encoder tasks on "
         "pool workers, write thread (pop in order, Compressor::write/close, promise := size | exception, flag, queue shutdown, "
         "destructors) and the kernel as environment: the first write reaching unit offset o is cut short and fails, fsync fails, "
         "the n-th close fails, encoder throws (pool / user thread), compressor throws. Three compressor models that differ where the "
         "code differs (plain write-through; gzip: any prefix of the pending bytes reaches the kernel per gzwrite, rest + trailer in "
         "gzclose_w, close(dup), fstat, fsync, close; bzip2: BZ2_bzWriteClose64, fsync, fclose, ~file_wrapper). A-layer = sequential "
         "specification Walk(cfg,p) of the caller-visible log. TLC checks for every configuration, interleaving, queue bound and "
         "buffering choice: log in Allowed(cfg); a returned size implies no fault, disk = Encode(objects handed in) and size = "
         "Len(disk); a fault before close() returned is reported by an exception and only then; data refused after an exception; "
         "future read at most once; no thread / descriptor left; no deadlock; termination under weak fairness; negative control "
         "(as-shipped compressor model violates NoFdLeft). Binding: TLC exports (format x compression x fsync x fault x script) with "
         "the allowed logs; harness/writer_fault.cpp runs the real Writer with the real XML/OPL/PBF encoders and plain/gzip/bzip2 "
         "compressors while the kernel refuses (RLIMIT_FSIZE at byte offset o, /dev/full, fsync/close/fclose defined in the "
         "executable), plus unencodable OPL strings, a mock OutputFormat and a mock compressor; per call result, returned size vs "
         "stat, read-back with the Reader, threads/descriptors from /proc, watchdog for hangs; thorough: every byte offset of the "
         "would-be output for 3 formats x 3 compressions x fsync. Recorded executions (queue hooks, WriteThread hooks, API "
         "call/return) are validated by TLC against WriterPipelineTrace.tla. Scripts also contain operator()(Buffer) with a buffer "
         "the format encodes to nothing (only an Area / a bare TagList): as shipped the empty string travelled through the output "
         "queue and was taken for the end-of-data marker (model variant emptyfix = FALSE violates CompleteOrThrows - second "
         "negative control, MCWP_shipped_empty.cfg); the repaired model and the real Writer are checked for xml/opl/pbf x "
         "plain/gzip/bzip2 x fsync (family 'empty').",
    design_ref="DESIGN.md section 4, C08",
    note="One fault per configuration. Byte offsets are instances of three offset classes of the spec (inside the output: allowed "
         "logs of 'unit 0 fails', a superset for later offsets; tail only produced while closing: only close() may throw; >= size: "
         "success), so *where* between first data and close() the exception surfaces is not pinned down by the replay (the trace "
         "validation pins the poll in do_flush). For bzip2 the close fault is injected at fclose (glibc's internal close cannot be "
         "interposed). PBF is modelled for less than one primitive block. Real schedules are perturbed, not enumerated. Errors after "
         "a successful write (page cache) are only 'fsync fails'. In trace validation a kernel fault is represented by the "
         "Compressor call observed to fail. Outcome-equivalent mutations (gzwrite / BZ2_bzWrite result ignored) are not detected. Objects a "
         "format cannot represent (Area, bare TagList) are skipped by its encoder and are not counted among 'the objects handed "
         "in'; the check is that such a buffer neither ends the file nor loses later data. User-defined OutputFormats that push "
         "empty pool results themselves are outside the check.",
    technique="TLA+ spec + TLC (safety, deadlock, liveness under fairness); spec-to-code replay with kernel-level fault injection; "
              "trace validation of recorded executions against the spec"),
 "C01": dict(
    category="model_checking",
    text="RoundTrip.tla: A-layer Project(options, object)/AOutcome/ProjectHeader; I-layer Writer transducer (PBF PrimitiveBlock: type, "
         "count, size, can_add gate at 95 %, per-block string table, per-block dense delta registers, size check at serialization; "
         "XML/XML-change/OPL attribute-presence rules) with the decoders mirroring it. TLC: decoder o encoder = Project, outcome = "
         "AOutcome, blob limits (<= 8000 entities, <= 32 MiB), block shape, delta reset over the full 3264-point option matrix x 18 "
         "element shapes, all shape pairs x 576 structural vectors, all type sequences to length 6, bulk sequences (7999/8000/8001 "
         "runs, blocks filled to the gate, string-table-heavy blocks) to length 4; F7 configurations must fail. Replay: exported "
         "(option vector, shape, projection, outcome, header features, block layout) instantiated with seeded boundary values, "
         "written with osmium::io::Writer, read with osmium::io::Reader (1 and 4 pool threads), every field compared with Project; "
         "independent PBF framing parser (tools/pbf_framing.py) checks every BlobHeader/Blob/PrimitiveBlock against the format "
         "limits, header features and independently decoded ids. Extension (specs/FileSpec*.tla, checks/C01ext.py): what sits "
         "upstream of the option vector is specified and bound too. FileSpec.tla: the meaning of a (file name, format string) pair "
         "as [filename, format, compression, history, options] or a check() error - A-layer = the documented "
         "[TYPE.][FORMAT.][COMPRESSION] suffix scheme with later-wins options, I-layer = osmium::io::File's parser as written; TLC "
         "checks I => A for every name of <= 4 tokens over 12 (24) tokens, every format part of <= 3 tokens x options, <= 3 option "
         "parts, <= 2 (3) setter calls, and every case is replayed on the real File (every accessor, check() verdict, exception "
         "class and message). FileSpecMd.tla: metadata_options; FileSpecHeader.tla: Header/Options/Box::extend (joined_boxes = "
         "bounding box of valid corners); FileSpecCrc.tla: the input of osmium::CRC<> is a function of the object's content only - "
         "for every sub-item order, absent/empty lists, 7 physical construction variants and after PBF/XML/OPL round trips the "
         "recorded byte stream equals the spec's feed and CRC_zlib equals crc32 of it.",
    design_ref="DESIGN.md section 4, C01, section 6 F7",
    note="Values are boundary tokens from a seeded pool, not the 64-bit/Unicode domain; codec fidelity is exercised, not enumerated. "
         "Domain = what the readers accept (XML ids strictly inside int64, uint32 attributes < 2^32-1, delta-coded neighbours differ "
         "by < 2^63). Named deviations modelled: PBF invisible nodes carry no location, OPL drops/refuses out-of-range locations, "
         "PBF one joined header box / OPL no header, XML anonymous changeset user. Blob/file compression and thread count are passed "
         "through by the model and assigned by the check (quick: one combination per structural point; thorough: full product x 5 "
         "seeds). Block layout is compared as evidence only; the verdict uses limits, outcome and content. Open finding F7a (object "
         "> 5 % of the blob limit after a nearly full block) is reported as KNOWN-FINDING. Extension limits: File's A-layer is "
         "claimed on the documented domain; outside it (stem read as suffix, trailing '.', a file called http/https, junk before a "
         "known format tail, empty parts) the implementation-shaped layer is the oracle (named deviations); strings are token "
         "sequences; CRC blind spots (changeset id of objects, ring roles/boundaries, string boundaries, item type) are part of the "
         "spec; 'different content gives a different checksum' is a sanity check on ~100 contents, not a collision claim.",
    technique="TLA+ spec + TLC design check; TLC-exported behaviours replayed on the real Writer/Reader pair; independent format-limit parser"),

 "C10": dict(
    category="model_checking",
    text="specs/AreaGrid.tla states the property declaratively on an integer grid with exact integer predicates: segments of the "
         "ways mod 2, Crosses/Overlaps by cross products, ValidArrangement (non-empty, all degrees even, no crossing/overlap/"
         "end-in-interior), even-odd Region by ray casting from generic sample points, and Judge = the set of violated "
         "requirements of an observed result (assembled/rejected, rings closed, >= 4 points, no repeated point, no conflict "
         "among ring segments, orientation, inner inside and attached to the innermost outer, region of the multipolygon = "
         "even-odd fill, ring segments = input segments, problem counts in area_stats and ProblemReporter). A case-builder "
         "state machine draws catalogue rings (rect/tri/L/T/diamond/kite, dense variants, trapezoids, rectangles with subdivided "
         "edges, G=4/5, nested chains on G=7, the scripted family 'hole over a non-rectangular island' on G=7/8), damages "
         "the segment bag, and re-draws the same bag as every possible set of ways (member order, direction, cutting, through "
         "touching points) x role patterns; TLC proves bag conservation and the A-layer's consistency theorems (ray "
         "independence, XOR of ring fills, cancellation, Judge accepts the reference answer and rejects spoiled ones, tiling "
         "theorem) exhaustively for small constants and exports cases with expected verdicts by simulation. "
         "harness/area_replay.cpp runs the real Assembler (way entry, relation entry, MultipolygonManager pipeline; 5 configs; "
         "5 affine embeddings into Locations up to +-2^29; shared/distinct node ids) and only logs rings, return value, stats "
         "and reporter calls; the log goes back to TLC (specs/AreaGridTrace.tla) which evaluates Judge per observation and "
         "invariance of the ring set within each group of cases over the same segment set. Chains of up to 101 copies of a "
         "TLC-chosen motif (100 touching points) are judged copy by copy.",
    design_ref="DESIGN.md section 4, C10",
    note="Small grids (G=4/5, 7 for nested rectangles), <= 3 (4) catalogue rings and <= 26 segments per case, cases sampled by "
         "TLC simulation (not exhaustive); region/inside are decided on 2G x 2G generic sample points (exact per point; with "
         "'ring segments = input segments' exact for the catalogue); connectedness of polygon interiors is not required by the "
         "property and not checked (a min/max candidate swap in join_connected_rings yields different but still valid output); "
         "problem counts are compared exactly (intersections = conflicting pairs, open ends = odd points, touching points = "
         "degree >= 4). Open finding F10a: long chains of touching rings are silently rejected (find_candidates max_depth 20).",
    technique="TLA+ declarative spec + TLC design check; TLC-exported cases run on the real Assembler; observed rings validated "
              "by TLC against the spec's oracle (trace validation), invariance by grouping over segment sets"),

 "C03": dict(
    category="fault_enumeration",
    text="specs/FaultModel.tla: a catalogue of the structural positions of PBF (BlobHeader length/fields, Blob raw/zlib_data/raw_size, "
         "HeaderBlock, string table, groups, dense arrays, keys_vals, Info), o5m (magic, dataset type/length, delta fields, string pairs, "
         "table references, reference-section lengths, table wrap-around), OPL (lines, fields) and XML (attributes, document level), each "
         "of a kind that determines the injectable faults; TLC enumerates base file x fault x position exhaustively, every truncation "
         "before/in the length/inside/after every position (file level and inside the blob content), every prefix, and seeded walks "
         "with 2 faults (+ truncation). specs/FaultModelXml.tla: the XML handler as an implementation-shaped machine (context stack, "
         "open object, the four sub-builders, pending comment, read_types guards) driven by every element sequence over 18 elements "
         "within the bound; TLC checks 'whatever is committed is a well-formed item', builder discipline and the handler's "
         "assert()s, rejects the as-shipped handler (Fixed=FALSE) and exports every terminal history with the expected outcome and "
         "object shapes. tools/fault_enc.py materialises every description; harness/fault_replay.cpp reads it with the real Reader "
         "(plain/gzip/bzip2, memory/file, entity-type subsets, no-metadata) in an NDEBUG and an assertions-enabled ASan+UBSan build: "
         "terminates (watchdog), data or std::exception, every delivered item passes a bounds-checking walker and a full natural "
         "traversal, no thread/fd left, bounded heap and output, XML outcome and shapes equal the spec's.",
    design_ref="DESIGN.md section 4, C03; section 5",
    note="Structure-aware fault enumeration, NOT arbitrary byte strings and no coverage guidance. Full XML vocabulary exhaustive to "
         "3 (quick) / 4 (thorough) elements, sub-vocabularies to 5, length 6 only model-checked + a 30000 sample; XML attribute "
         "faults one per file in a minimal context; multi-fault files are seeded random walks (<= 2 faults); thorough alternates the "
         "4-element XML histories between the two builds. Memory bound is coarse (64 x raw input + 96 MiB, allocations <= 1 GiB); "
         "hang = 60 s (+240 s confirmation). expat/zlib/libbz2/protozero as installed. The walker reads private size fields "
         "(-fno-access-control). Entity-type subsets have no expected outcome.",
    technique="TLA+ structure/fault catalogue + implementation-shaped XML handler model checked by TLC; TLC-exported faulty files and "
              "handler histories replayed on the real Reader under ASan+UBSan with a bounds-checking item walker as oracle"),

 "C02": dict(
    category="model_checking",
    text="specs/Encodings.tla holds the A-layer (a catalogue of object lists: shared strings, more distinct strings than "
         "table rows, strings at the 250 character border, every metadata level, deleted objects, ids going down and below "
         "zero, far apart coordinates, few-byte files). One I-layer module per format models the ENCODING CHOICE SPACE as "
         "nondeterministic encoder actions fused step by step with a decoder shaped like libosmium's parser: O5mTable.tla "
         "(reference table as newest-first list vs ring + current_entry, inline vs any matching back reference per string, "
         "delta registers per field and member type, reset / sync / jump / unknown / single-byte data sets, o5m/o5c, "
         "bbox/timestamp, type-subset reads with undecoded skipping), PbfChoices.tla (blocks, groups, plain/dense, "
         "granularity, lat/lon offset, date granularity with exact-representability preconditions - for nodes and for the "
         "delta-coded lat/lon arrays of ways that carry node locations -, optional Info/DenseInfo "
         "fields, string table layouts, dense key/value delimiting; labels: compression, indexdata and BlobHeader sizes "
         "127..65535, unknown fields, field order, packed/unpacked/split, padded lengths, 16 MiB / 32 MiB-1 blobs, unknown "
         "blob types), XmlChoices.tla (osm/osmChange, sections, defaults written or omitted, child order; labels: attribute "
         "order, quoting, references, white space, declaration/BOM, comments, foreign elements/attributes, bounds/bound), "
         "OplChoices.tla (field sets/order, separators, LF/CRLF/CR, empty and comment lines, escapes). TLC checks for every "
         "choice sequence that the decoder model yields the data set (DecodedOK), for o5m that ring indexing equals "
         "newest-first numbering across wrap-around (N=3,4) and reset (TableAgree) and that the delta registers agree "
         "(RegsAgree); 'as shipped' variants of three decoder models are required to FAIL. TLC exports choice vectors (all of "
         "them for the few-byte data sets and for every placement of <=2 resets, simulation otherwise; covering selection "
         "over ~280 encoding features with a vacuity guard) with the expected object list; independent specification-derived "
         "encoders (tools/enc_*.py, python stdlib) materialise them with boundary values; harness/encodings_replay.cpp reads "
         "each file with osmium::io::Reader through the file-descriptor and the buffer path and compares every object and "
         "the header.",
    design_ref="DESIGN.md section 4, C02",
    note="Values are boundary tokens (ids to 2^58 and negative, 2^31-1 versions/uids, timestamps to 2100, +-179/+-89 degree "
         "coordinates, UTF-8 with XML/OPL specials, exact 249/250/251 byte strings), not the whole domain; codecs are "
         "exercised, not enumerated. o5m table has 3 rows (OSMIUM_VERIF_O5M_TABLE_SIZE) except the thorough bulk case (real "
         "15000 rows, 15010 strings, filled by a closed-form action whose equality with the single steps TLC checks at small "
         "N). Domain: o5m reset at every type change in the main configs (files without it only in the F02h config), no uid 0 "
         "with user name; PBF values exactly representable; no LocationsOnWays, changesets, file-level compression; type-subset "
         "reads modelled for o5m only. Trusted base: the independent encoders. Seven conformance gaps are recorded as known "
         "findings F02b-F02h.",
    technique="TLA+ specs of the encoding choice space fused with decoder models, TLC invariant checking; spec-to-code replay "
              "of exported choice vectors through independent encoders"),
}

NOT_APPLICABLE = {
 "C18": "Accuracy, round-trip after rounding and monotonicity of IEEE-754 transcendental arithmetic: TLA+/TLC has no reals or floats "
        "and there is no state machine to specify or bind (DESIGN.md section 5).",
}

NOT_YET = "not claimed yet: the TLA+ spec and conformance harness for this property are not built yet (see DESIGN.md section 7 build order)"

def main():
    props = [json.loads(l)["id"] for l in open(os.path.join(HERE, "properties.jsonl"))]
    hooks_commits = []
    p = os.path.join(HERE, "hooks_commits.txt")
    if os.path.exists(p):
        hooks_commits = [l.split()[0] for l in open(p) if l.strip()]
    m = {
      "version": 1,
      "setup_cmd": "./setup.sh",
      "hooks": {
        "guard": "OSMIUM_VERIF",
        "enable": "harnesses are compiled from /repo/include with -DOSMIUM_VERIF (see tools/vlib.py BASE_FLAGS); the library is header-only, nothing else is rebuilt",
        "baseline_off_cmd": "cmake --build /repo/_build && ctest --test-dir /repo/_build -j8 --timeout 900",
        "source_commits": hooks_commits,
        "add_only": True,
      },
      "engines": [
        {"name": "tlc", "path": "/usr/local/bin/tlc", "serves_properties": sorted(CHECKS), "kind_free_text": "TLA+ explicit-state model checker (design check, behaviour export, trace validation)"},
        {"name": "replay harnesses", "path": "/verif/harness", "serves_properties": sorted(CHECKS), "kind_free_text": "C++14 drivers stepping the real libosmium objects through TLC-generated behaviours / recording traces"},
      ],
      "checks": [],
      "not_applicable": [],
      "notes": "Every check is ./check <id> --tier quick|thorough; exit 2 = the machinery itself failed (never a VIOLATION). See DESIGN.md.",
    }
    for pid in props:
        if pid in CHECKS:
            c = CHECKS[pid]
            m["checks"].append({
              "property_id": pid,
              "quick_cmd": "./check %s --tier quick" % pid,
              "thorough_cmd": "./check %s --tier thorough" % pid,
              "evidence_file": "/verif/evidence/%s.json" % pid,
              "replay_cmd_template": "./check %s --replay {path}" % pid,
              "engine": "tlc",
              "level_claimed": {"category": c["category"], "text": c["text"], "design_ref": c["design_ref"]},
              "level_note": c["note"],
              "technique": c["technique"],
            })
        else:
            m["not_applicable"].append({"property_id": pid, "reason": NOT_APPLICABLE.get(pid, NOT_YET)})
    with open(os.path.join(HERE, "MANIFEST.json"), "w") as fh:
        json.dump(m, fh, indent=1)
    print("MANIFEST.json: %d checks, %d not_applicable" % (len(m["checks"]), len(m["not_applicable"])))

if __name__ == "__main__":
    main()
