#!/usr/bin/env python3
"""Regenerates /verif/MANIFEST.json from the table below (single source of truth)."""
import json, os, sys
HERE = os.path.dirname(os.path.dirname(os.path.abspath(__file__)))

CHECKS = {
 "C16": dict(
    category="model_checking",
    text="TLC proves on specs/ObjectOrder.tla that the orderings as written equal the documented ones and are strict weak "
         "orders (all triples of the grid), and that the CheckOrder register machine accepts exactly the strictly ascending "
         "streams (unbounded length). The code is bound by replaying the complete 648x648 comparison matrix and every "
         "CheckOrder sequence exported by TLC on real objects with the extreme values.",
    design_ref="DESIGN.md section 4, C16",
    note="ids/versions/timestamps are rank tokens instantiated with the boundary values of the property's grid; values "
         "between the grid points are not enumerated. Triple laws are proved at spec level and transferred through the complete pair matrix.",
    technique="TLA+ spec + TLC exhaustive check; spec-to-code replay of the TLC-exported comparison matrix and CheckOrder sequences"),
 "C19": dict(
    category="model_checking",
    text="TLC explores every interleaving of specs/ThreadQueue.tla (one action per critical section of queue.hpp/pool.hpp, "
         "the unlocked m_in_use accesses and condition-variable waits as separate steps) for FIFO/no-loss/no-duplicate while "
         "in use, the size bound, deadlock freedom, liveness under weak fairness (shutdown wakes every consumer; pool "
         "terminates), and exactly-once task execution. Executions of the real Queue/Pool recorded through OSMIUM_VERIF "
         "hooks at the linearization points under a seeded schedule perturbation are validated against the spec "
         "(ThreadQueueTrace.tla), every invariant evaluated at every step.",
    design_ref="DESIGN.md section 4, C19",
    note="All interleavings are enumerated on the spec (2-3 threads per role, 2-4 items); on the real code schedules are "
         "perturbed and every observed execution validated, not enumerated. Trusted: std::mutex/condition_variable/"
         "packaged_task semantics, the hook placement (under the queue mutex, after the change).",
    technique="TLA+ spec + TLC (safety, deadlock, liveness); trace validation of recorded real executions against the spec"),
 "C04": dict(
    category="model_checking",
    text="specs/Buffer.tla models the buffer bookkeeping (capacity/written/committed, the frozen chain of auto_grow::internal, "
         "offsets of open builders relative to the committed mark, size propagation through all parents, padding) and the "
         "content passed in; TLC checks that header sizes equal the layout size of the content, that builder offsets stay "
         "valid under every reserve_space outcome, and that commit/rollback/clear/purge act on exactly the documented data. "
         "Every history TLC exports (all of bounded depth plus simulated long ones, x initial capacity 64..256 x growth mode) "
         "is replayed on the real Buffer and builders under ASan/UBSan and the complete item sequence with content is "
         "compared after every call.",
    design_ref="DESIGN.md section 4, C04",
    note="Histories are bounded (exhaustive to depth 9 / 5, simulated to depth 30); strings are lengths in the spec and "
         "deterministic bytes in the harness; exact capacity after growth is not compared; purge/set_removed only in growth "
         "modes no/yes; Area builders are not covered.",
    technique="TLA+ spec + TLC; spec-to-code replay of exported API histories with per-step state comparison"),
 "C15": dict(
    category="model_checking",
    text="Four specs (IdSetDense, IdSetSmall, RelationsMap, ItemStash) each carry the implementation-shaped state (chunk "
         "vector and skipping iterator; vector with sort_unique/merge; the 32/64 bit flat maps and the three index builders; "
         "buffer + offset index + counters + should_gc + the purge cursor walk) next to the mathematical set/map, and TLC "
         "checks I => A over all bounded histories. TLC-exported histories are replayed on the real containers (several "
         "instantiations incl. the top of the uint32 range and ids beyond 2^32) comparing every return value, size, "
         "ascending iteration, lookup list and every live handle's content.",
    design_ref="DESIGN.md section 4, C15",
    note="Scaled-down geometry embedded border-preservingly into the real id space; ItemStash GC threshold lowered through "
         "the OSMIUM_VERIF_STASH_GC_MIN hook; histories bounded (depth 7-14).",
    technique="TLA+ specs + TLC refinement check; spec-to-code replay of exported histories with per-call comparison"),
 "C11": dict(
    category="model_checking",
    text="specs/RelMgr.tla models the relations database countdown, the sorted members databases with removed marks, the "
         "stash, MembersDatabase::add's range walk with completion on the spot and MembersDatabaseCommon::remove, next to a "
         "set-based model (which relation must complete at which object, what is retrievable when, what is incomplete); TLC "
         "checks agreement over all scenarios within the bounds. Exported scenarios (exhaustive small, simulated larger) are "
         "replayed on all eight RelationsManager instantiations; callbacks, member retrievability inside the callback, lookups "
         "of every known id afterwards, pending count and the incomplete list are compared after every call.",
    design_ref="DESIGN.md section 4, C11",
    note="Bounds: <=3 relations, <=4 members, 6 member refs incl. relation-in-relation, 9 stream objects; sorted distinct "
         "streams only; MultipolygonManager only through its RelationsManager base; output-buffer flush thresholds not varied.",
    technique="TLA+ spec + TLC refinement check against a set-based model; spec-to-code replay of exported scenarios"),
}

NOT_APPLICABLE = {
 "C18": "Accuracy, round-trip after rounding and monotonicity of IEEE-754 transcendental arithmetic: TLA+/TLC has no reals or floats "
        "and there is no state machine to specify or bind (DESIGN.md section 5).",
}

NOT_YET = "not claimed yet: the TLA+ spec and conformance harness for this property are not built yet (see DESIGN.md section 7 build order)"

def main():
    props = [json.loads(l)["id"] for l in open(os.path.join(HERE, "properties.jsonl"))]
    hooks_commits = []
    p = os.path.join(HERE, "hooks_commits.txt")
    if os.path.exists(p):
        hooks_commits = [l.split()[0] for l in open(p) if l.strip()]
    m = {
      "version": 1,
      "setup_cmd": "./setup.sh",
      "hooks": {
        "guard": "OSMIUM_VERIF",
        "enable": "harnesses are compiled from /repo/include with -DOSMIUM_VERIF (see tools/vlib.py BASE_FLAGS); the library is header-only, nothing else is rebuilt",
        "baseline_off_cmd": "cmake --build /repo/_build && ctest --test-dir /repo/_build -j8 --timeout 900",
        "source_commits": hooks_commits,
        "add_only": True,
      },
      "engines": [
        {"name": "tlc", "path": "/usr/local/bin/tlc", "serves_properties": sorted(CHECKS), "kind_free_text": "TLA+ explicit-state model checker (design check, behaviour export, trace validation)"},
        {"name": "replay harnesses", "path": "/verif/harness", "serves_properties": sorted(CHECKS), "kind_free_text": "C++14 drivers stepping the real libosmium objects through TLC-generated behaviours / recording traces"},
      ],
      "checks": [],
      "not_applicable": [],
      "notes": "Every check is ./check <id> --tier quick|thorough; exit 2 = the machinery itself failed (never a VIOLATION). See DESIGN.md.",
    }
    for pid in props:
        if pid in CHECKS:
            c = CHECKS[pid]
            m["checks"].append({
              "property_id": pid,
              "quick_cmd": "./check %s --tier quick" % pid,
              "thorough_cmd": "./check %s --tier thorough" % pid,
              "evidence_file": "/verif/evidence/%s.json" % pid,
              "replay_cmd_template": "./check %s --replay {path}" % pid,
              "engine": "tlc",
              "level_claimed": {"category": c["category"], "text": c["text"], "design_ref": c["design_ref"]},
              "level_note": c["note"],
              "technique": c["technique"],
            })
        else:
            m["not_applicable"].append({"property_id": pid, "reason": NOT_APPLICABLE.get(pid, NOT_YET)})
    with open(os.path.join(HERE, "MANIFEST.json"), "w") as fh:
        json.dump(m, fh, indent=1)
    print("MANIFEST.json: %d checks, %d not_applicable" % (len(m["checks"]), len(m["not_applicable"])))

if __name__ == "__main__":
    main()
