"""C02 - glue between the TLC-exported choice vectors (specs/O5mTable.tla, PbfChoices.tla, XmlChoices.tla,
OplChoices.tla) and the independent encoders enc_o5m / enc_pbf / enc_xml / enc_opl.

concretize()   maps the model's small numbers and string tokens onto concrete boundary values.  The map is
               injective and depends only on (data set, profile, seed) - NOT on the format - so that the same
               data set in the same profile is the same concrete object list for all four readers.
plan_*()       turn the exported step list of one format into the plan its encoder understands.
features()     the encoding features a case exercises (for the covering selection and the vacuity guard)."""
import random

import enc_o5m
import enc_opl
import enc_pbf
import enc_xml

NOCOORD = -999

# token -> number of bytes of the concrete string (must agree with W() in specs/Encodings.tla)
WIDTH = {"": 0, "L150": 150, "L151": 151, "k100": 100, "R249": 249, "R250": 250, "R251": 251}

POOLS = {
    "ascii": "abcdefghijklmnopqrstuvwxyzABCDEFGHIJKLMNOPQRSTUVWXYZ0123456789_:-./",
    "xml": "a&b<c>d\"e'f;#x& amp;&&<<>>",
    "opl": "a b,c=d@e%f %%,,==@@  ",
    "utf8": "aé߀日本語𝄞😀ñ",          # 1, 2, 3 and 4 byte sequences
    "ws": "a\tb\nc d\re",
}

ID_PROFILES = [(1, 0), (1, 2 ** 31 - 4), (1, 2 ** 32 - 3), (2 ** 33 + 1, 0), (-(2 ** 35), 7), (1, -6), (10 ** 15, 3),
               (2 ** 58, -1)]
LON_PROFILES = [(1, 0), (1, 1234567800), (1, -1700000000), (17900001, 0)]
LAT_PROFILES = [(1, 0), (1, 512345600), (1, -899999000), (8900001, 0)]
TS_BASES = [0, 1500000000, 4102444800]
BOXES = [[-1800000000, -900000000, 1800000000, 900000000], [100, 200, 300, 400], [-1234567, -7654321, 12, 13]]


class Concrete:
    def __init__(self, ds, profile, seed):
        self.rng = random.Random("c02/%s/%d/%d" % (ds, profile, seed))
        r = self.rng
        self.profile = profile
        if profile == 0:                       # plain values: what fixtures look like
            self.idp, self.lonp, self.latp, self.tsb = (1, 0), (1, 1234567800), (1, 512345600), 1500000000
            self.vbig = self.big = False
            self.pool_names = ["ascii"]
        else:
            self.idp = r.choice(ID_PROFILES)
            self.lonp = r.choice(LON_PROFILES)
            self.latp = r.choice(LAT_PROFILES)
            self.tsb = r.choice(TS_BASES)
            self.vbig = r.random() < 0.5
            self.big = r.random() < 0.5
            self.pool_names = r.sample(sorted(POOLS), r.randint(1, len(POOLS)))
        self.box = r.choice(BOXES)
        self.filets = r.choice([1, 1500000000])
        self.strings = {"": ""}

    def string(self, tok):
        if tok in self.strings:
            return self.strings[tok]
        r = self.rng
        width = WIDTH.get(tok, None)
        if width is None:
            width = r.choice([1, 2, 3, 7, 20, 40]) + len(tok)
        pool = POOLS[r.choice(self.pool_names)]
        out = tok + "|" if len(tok) + 1 <= width else tok[:width]     # the token name keeps the map injective
        n = len(out.encode())
        while n < width:
            ch = r.choice(pool)
            b = len(ch.encode())
            if n + b > width:
                ch, b = "x", 1
            out += ch
            n += b
        assert len(out.encode()) == width, (tok, width, out)
        self.strings[tok] = out
        return out

    def id(self, k):
        return k * self.idp[0] + self.idp[1]

    def obj(self, m):
        o = {"t": m["t"], "id": self.id(m["id"]), "vis": m["vis"]}
        o["v"] = 0 if m["v"] == 0 else (m["v"] + 2 ** 31 - 4 if self.vbig else m["v"])
        o["cs"] = 0 if m["cs"] == 0 else (m["cs"] * 300000000 + 11 if self.big else m["cs"])
        o["ts"] = 0 if m["ts"] == 0 else m["ts"] + self.tsb
        o["uid"] = 0 if m["uid"] == 0 else (m["uid"] * 200000000 + 1 if self.big else m["uid"])
        o["user"] = self.string(m["user"])
        o["tags"] = [[self.string(k), self.string(v)] for k, v in m["tags"]]
        if m["t"] == "n":
            if m["lon"] == NOCOORD:
                o["lon"] = o["lat"] = None
            else:
                o["lon"] = m["lon"] * self.lonp[0] + self.lonp[1]
                o["lat"] = m["lat"] * self.latp[0] + self.latp[1]
        elif m["t"] == "w":
            o["refs"] = [self.id(r) for r in m["refs"]]
            # location of every referenced node ([lon, lat], the same value map as node coordinates); None = undefined
            locs = m.get("locs", [])
            if locs and len(locs) != len(m["refs"]):
                raise ValueError("way with locations for some of its node references only")
            o["locs"] = [[x * self.lonp[0] + self.lonp[1], y * self.latp[0] + self.latp[1]] for x, y in locs] or [None] * len(m["refs"])
        else:
            o["mems"] = [[x["mt"], self.id(x["ref"]), self.string(x["role"])] for x in m["mems"]]
        return o


def concretize(case, profile, seed):
    """-> (value map, all objects of the file, objects the reader is expected to deliver)"""
    c = Concrete(case["ds"], profile, seed)
    if "all" in case:                      # o5m: the reader may have been asked for a subset of the object types
        objs = [c.obj(m) for m in case["all"]]
        exp = [o for o in objs if o["t"] in case["mask"]]
        if exp != [c.obj(m) for m in case["exp"]]:
            raise ValueError("the spec's selection is not the filter of its object list")
        return c, objs, exp
    objs = [c.obj(m) for m in case["exp"]]
    return c, objs, objs


# ------------------------------------------------------------------------------------- plans

def plan_o5m(case, conc, objs):
    steps = []
    has_box = False
    for st in case["steps"]:
        a = st["a"]
        if a in ("reset", "skip"):
            steps.append(dict(st))
        elif a == "fill":                      # FillerRun of the spec: n nodes with one new inline tag each
            for i in range(st["n"]):
                steps.append({"a": "obj", "i": i, "roles": [], "tags": ["inl"]})
        elif a == "bbox":
            steps.append({"a": "bbox", "box": conc.box})
            has_box = True
        elif a == "filets":
            steps.append({"a": "filets", "ts": conc.filets})
        elif a == "obj":
            o = objs[st["i"]]
            how = [("inl" if h == 0 else h) for h in st["strs"]]
            d = {"a": "obj", "i": st["i"]}
            p = 0
            if o["v"] != 0 and o["ts"] != 0:
                d["user"] = how[0]
                p = 1
            if o["vis"]:
                nm = len(o.get("mems", []))
                d["roles"] = how[p:p + nm]
                d["tags"] = how[p + nm:]
                if len(d["tags"]) != len(o["tags"]):
                    raise enc_o5m.PlanError("choice vector and object disagree on the number of strings")
            elif len(how) != p:
                raise enc_o5m.PlanError("choice vector has strings for a deleted object")
            steps.append(d)
    plan = {"variant": case["variant"], "eof": True, "steps": steps}
    hdr = {"boxes": [conc.box] if has_box else [], "multi": case["variant"] == "o5c"}
    return plan, hdr


def plan_pbf(case, conc, objs):
    hdr, blocks, cur, grp = {}, [], None, None
    for st in case["steps"]:
        a = st["a"]
        d = {k: v for k, v in st.items() if k != "a"}
        if a in ("hdr", "hdr2"):
            hdr.update(d)
        elif a == "blk":
            cur = dict(d, groups=[])
            # the model's offsets are shifted by a multiple of the granularity (int64 offsets far from zero)
            shift = conc.rng.choice([0, 0, 10 ** 9, -3 * 10 ** 10]) * cur["gran"]
            cur["lato"] += shift
            cur["lono"] -= shift
            cur["gran_explicit"] = conc.rng.random() < 0.5
            cur["dgran_explicit"] = conc.rng.random() < 0.5
        elif a == "blkx":
            cur["st"] = d["st"]
        elif a == "grp":
            grp = dict(d, objs=[])
        elif a == "obj":
            grp["objs"].append(st["i"])
        elif a == "endgrp":
            cur["groups"].append(grp)
            grp = None
        elif a in ("endblk", "endblk2"):
            cur.update(d)
            if a == "endblk2":
                blocks.append(cur)
                cur = None
    xb = hdr.pop("xblobs", "none")
    if hdr.pop("bbox", False):
        hdr["bbox"] = conc.box
    plan = {"hdr": hdr, "blocks": blocks, "xblobs": xb}
    h = {"boxes": [conc.box] if "bbox" in hdr else [], "multi": any(not o["vis"] for o in objs)}
    return plan, h


XML_ATTR = {"v": "version", "t": "timestamp", "c": "changeset", "i": "uid", "u": "user", "d": "visible"}


def plan_xml(case, conc, objs):
    plan = {"steps": []}
    for st in case["steps"]:
        a = st["a"]
        d = {k: v for k, v in st.items() if k != "a"}
        if a == "style":
            plan.update(d)
        elif a == "obj":
            d["omit"] = [XML_ATTR[x] for x in d["omit"]]
            plan["steps"].append(dict(d, a="obj"))
        else:
            plan["steps"].append(dict(st))
    b = plan.pop("bounds", "none")
    plan["bounds"] = None if b == "none" else {"kind": b, "box": conc.box}
    hdr = {"boxes": [conc.box] if b == "bounds" else [], "multi": plan["root"] == "osmChange"}
    return plan, hdr


def plan_opl(case, conc, objs):
    plan = {"steps": []}
    for st in case["steps"]:
        if st["a"] == "style":
            plan.update({k: v for k, v in st.items() if k != "a"})
        else:
            plan["steps"].append(dict(st))
    return plan, {"boxes": [], "multi": False}


def encode(case, conc, objs, o5m_table_size):
    """-> (bytes, expected header, reader format name)"""
    fmt = case["fmt"]
    if fmt == "o5m":
        plan, hdr = plan_o5m(case, conc, objs)
        data, _ = enc_o5m.encode(objs, plan, o5m_table_size)
        return data, hdr, "o5m", plan
    if fmt == "pbf":
        plan, hdr = plan_pbf(case, conc, objs)
        return enc_pbf.encode(objs, plan), hdr, "pbf", plan
    if fmt == "xml":
        plan, hdr = plan_xml(case, conc, objs)
        return enc_xml.encode(objs, plan), hdr, "xml", plan
    if fmt == "opl":
        plan, hdr = plan_opl(case, conc, objs)
        return enc_opl.encode(objs, plan), hdr, "opl", plan
    raise ValueError(fmt)


# ------------------------------------------------------------------------------------- features

def features(case):
    """set of short strings: what this choice vector exercises"""
    f = set()
    fmt = case["fmt"]
    f.add("%s ds=%s" % (fmt, case["ds"]))
    steps = case["steps"]
    if fmt == "o5m":
        n = case["N"]
        f.add("o5m variant=" + case["variant"])
        f.add("o5m mask=" + "".join(t for t in "nwr" if t in case.get("mask", "nwr")))
        lt, fr = None, True
        for st in steps:
            if st["a"] == "reset":
                fr = True
            elif st["a"] == "obj":
                t = case["all"][st["i"]]["t"]
                if lt is not None and t != lt and not fr:
                    f.add("o5m no reset at a type change")
                lt, fr = t, False
        inserted = 0
        seen_reset_after_obj = False
        last = None
        for st in steps:
            a = st["a"]
            if a == "skip":
                f.add("o5m skip=" + st["kind"])
                if last == "obj":
                    f.add("o5m skip between objects")
            elif a in ("bbox", "filets"):
                f.add("o5m " + a)
            elif a == "fill":
                f.add("o5m bulk fill")
                inserted += st["n"]
            elif a == "reset":
                if last == "obj":
                    seen_reset_after_obj = True
                    f.add("o5m reset after object")
                inserted = 0
            elif a == "obj":
                for h in st["strs"]:
                    if h == 0:
                        inserted += 1       # (upper bound: long strings do not enter)
                    else:
                        f.add("o5m ref=%d" % h if h < n else "o5m ref=N (oldest row)")
                        if inserted > n:
                            f.add("o5m ref after wrap-around")
                        if seen_reset_after_obj:
                            f.add("o5m ref after reset")
                if len(st["strs"]) > 0 and all(h == 0 for h in st["strs"]):
                    f.add("o5m all inline")
            last = a
    elif fmt == "pbf":
        nblk = sum(1 for s in steps if s["a"] == "blk")
        f.add("pbf blocks=%s" % (nblk if nblk < 3 else "3+"))
        for st in steps:
            a = st["a"]
            if a in ("hdr", "endblk"):
                lastcomp = st["comp"]
                w = "hdr" if a == "hdr" else "blk"
                f.add("pbf %s comp=%s" % (w, st["comp"]))
                f.add("pbf %s idx=%s" % (w, st["idx"]))
                f.add("pbf %s order=%s" % (w, st["order"]))
            elif a == "hdr2":
                f.add("pbf xblobs=" + st["xblobs"])
                for k in ("unk", "bbox", "prog", "rsfirst"):
                    f.add("pbf hdr %s=%s" % (k, st[k]))
            elif a == "endblk2":
                f.add("pbf size=" + st["size"])
                if st["size"] != "normal":
                    f.add("pbf big size=%s comp=%s" % (st["size"], lastcomp))
                for k in ("unk", "rsfirst", "emptygroup"):
                    f.add("pbf blk %s=%s" % (k, st[k]))
            elif a == "blk":
                f.add("pbf gran=%d" % st["gran"])
                f.add("pbf dgran=%d" % st["dgran"])
                f.add("pbf lato=%d" % st["lato"])
                f.add("pbf lono=%d" % st["lono"])
            elif a == "blkx":
                f.add("pbf st=" + st["st"])
            elif a == "grp":
                f.add("pbf kind=%s info=%s" % (st["kind"], st["info"]))
                f.add("pbf kind=%s pack=%s" % (st["kind"], st["pack"]))
                f.add("pbf grp order=" + st["order"])
                f.add("pbf grp unk=%s" % st["unk"])
                f.add("pbf grp lenpad=%s" % st["lenpad"])
        # ways that carry node locations, and the parameters of the block they are written into
        blk = None
        for st in steps:
            if st["a"] == "blk":
                blk = st
            elif st["a"] == "obj" and case["exp"][st["i"]].get("locs"):
                f.add("pbf way locations")
                offs = blk["lato"] != 0 and blk["lono"] != 0
                f.add("pbf way locations gran=%d" % blk["gran"])
                if blk["lato"] != 0 or blk["lono"] != 0:
                    f.add("pbf way locations lat_offset or lon_offset != 0")
                if offs and blk["gran"] % 100 != 0:
                    f.add("pbf way locations both offsets != 0 and granularity not a multiple of 100")
                if len(case["exp"][st["i"]]["locs"]) >= 3:
                    f.add("pbf way locations of 3+ nodes")
            elif st["a"] == "obj" and case["exp"][st["i"]]["t"] == "w" and "pbf way locations" in f:
                f.add("pbf way without locations after a way with locations")
        ngrp = [0]
        for st in steps:
            if st["a"] == "blk":
                ngrp.append(0)
            elif st["a"] == "grp":
                ngrp[-1] += 1
        if max(ngrp) > 1:
            f.add("pbf several groups in a block")
    elif fmt == "xml":
        f.add("xml root=" + case["root"])
        nsec = 0
        for st in steps:
            a = st["a"]
            if a == "style":
                for k, v in st.items():
                    if k not in ("a", "root"):
                        f.add("xml %s=%s" % (k, v))
            elif a == "open":
                nsec += 1
                f.add("xml section=" + st["sec"])
            elif a == "obj":
                f.add("xml kids=" + st["kids"])
                f.add("xml omit=%d" % len(st["omit"]))
                if st["visattr"]:
                    f.add("xml visible=false attribute")
                if st["unkattr"]:
                    f.add("xml unknown attributes")
        if nsec > 2:
            f.add("xml sections>2")
        for x, y in zip(steps, steps[1:]):
            if x["a"] == "open" and y["a"] == "close":
                f.add("xml empty section")
    elif fmt == "opl":
        for st in steps:
            a = st["a"]
            if a == "style":
                for k, v in st.items():
                    if k != "a":
                        f.add("opl %s=%s" % (k, v))
            elif a in ("empty", "comment"):
                f.add("opl line=" + a)
            elif a == "obj":
                f.add("opl order=" + st["order"])
                f.add("opl omit=%d" % len(st["omit"]))
                for x in st["omit"]:
                    f.add("opl omitted " + x)
    return f
