#!/usr/bin/env python3
"""Confirm a seeded defect delivered by a mutation agent and record it under /verif/seeded/<name>/.

usage: seed_confirm.py <property> <worktree> <variant letter> [--checks C04,C15] [--skip-suite]

In the scratch worktree (never /repo): applies _seed/variant_X.diff, rebuilds the repository's test suite and runs
ctest (must pass unedited), builds and runs _seed/demo_X.cpp with the change (must fail) and without it (must pass),
then runs the registered quick checks of /verif against the patched tree (VERIF_REPO=<worktree>) and records
which of them raise a VIOLATION.  Writes patch.diff, the demo and meta.json to /verif/seeded/<property>_<X>/."""
import json
import os
import shutil
import subprocess
import sys
import time

VERIF = os.path.dirname(os.path.dirname(os.path.abspath(__file__)))


def sh(cmd, cwd=None, timeout=3600, env=None):
    p = subprocess.run(cmd, shell=True, cwd=cwd, stdout=subprocess.PIPE, stderr=subprocess.STDOUT, text=True, timeout=timeout, env=env)
    return p.returncode, p.stdout


def main():
    prop, wt, var = sys.argv[1], sys.argv[2], sys.argv[3]
    checks = [prop]
    skip_suite = "--skip-suite" in sys.argv
    needs = ""
    name = "%s_%s" % (prop, var)
    for i, a in enumerate(sys.argv):
        if a == "--checks":
            checks = sys.argv[i + 1].split(",")
        if a == "--needs":
            needs = sys.argv[i + 1]
        if a == "--name":
            name = sys.argv[i + 1]
    seed = os.path.join(wt, "_seed")
    patch = os.path.join(seed, "variant_%s.diff" % var)
    demo = os.path.join(seed, "demo_%s.cpp" % var)
    meta = {"property": prop, "variant": var, "needs_to_manifest": needs, "ran": [], "worktree_base": sh("git rev-parse --short HEAD", cwd=wt)[1].strip()}
    sh("git checkout -- include test", cwd=wt)
    rc, out = sh("git apply --check %s" % patch, cwd=wt)
    if rc != 0:
        print("patch does not apply:", out)
        return 2
    flags = "-std=c++14 -O1 -g -I%s/include %s -o %s/demo_bin -lz -lbz2 -lexpat -llz4 -pthread" % (wt, demo, seed)
    # without the change
    rc, out = sh("g++ " + flags, cwd=seed)
    if rc != 0:
        print("demo does not compile on the clean tree:\n", out[-2000:])
        return 2
    clean = [sh("timeout 120 %s/demo_bin" % seed, cwd=seed)[0] for _ in range(3)]
    meta["demo_clean_exit_codes"] = clean
    # with the change
    sh("git apply %s" % patch, cwd=wt)
    rc, out = sh("g++ " + flags, cwd=seed)
    if rc != 0:
        print("demo does not compile with the change:\n", out[-2000:])
        sh("git checkout -- include test", cwd=wt)
        return 2
    mutated = [sh("timeout 120 %s/demo_bin" % seed, cwd=seed)[0] for _ in range(5)]
    meta["demo_mutated_exit_codes"] = mutated
    meta["ran"].append("g++ %s ; ./demo_bin (3x clean tree, 5x with patch)" % flags.replace(wt, "<worktree>"))
    suite = "skipped"
    if not skip_suite:
        b = os.path.join(wt, "_b")
        if not os.path.exists(os.path.join(b, "build.ninja")):
            sh("cmake -G Ninja -S %s -B %s -DBUILD_EXAMPLES=ON -DBUILD_TESTING=ON -DCMAKE_BUILD_TYPE=RelWithDebInfo" % (wt, b))
        rc, out = sh("nice cmake --build %s -j6" % b, timeout=7200)
        if rc != 0:
            suite = "BUILD FAILED: " + out[-1500:]
        else:
            rc, out = sh("ctest --test-dir %s -j6 --timeout 900" % b, timeout=7200)
            lines = [l for l in out.splitlines() if "tests passed" in l or "tests failed" in l]
            suite = (lines[-1] if lines else out[-300:]).strip()
        meta["ran"].append("cmake --build <worktree>/_b -j6 && ctest --test-dir <worktree>/_b -j6 (with the patch applied)")
    meta["existing_suite_with_patch"] = suite
    # our checks against the patched tree
    results = {}
    for c in checks:
        env = dict(os.environ, VERIF_REPO=wt)
        t0 = time.time()
        rc, out = sh("./check %s --tier quick" % c, cwd=VERIF, timeout=7200, env=env)
        viol = [l for l in out.splitlines() if l.startswith("VIOLATION")]
        what = [l.strip() for l in out.splitlines() if l.strip().startswith("what:")]
        results[c] = {"exit": rc, "violations": len(viol), "first": (what[0][:400] if what else ""), "wall_s": round(time.time() - t0)}
        if rc not in (0, 1):
            results[c]["output_tail"] = out[-1500:]
        meta["ran"].append("VERIF_REPO=<worktree with patch> ./check %s --tier quick -> exit %d" % (c, rc))
        # the evidence file of this run describes a mutated tree: restore the committed one
        sh("git checkout -- evidence/%s.json" % c, cwd=VERIF)
        sh("rm -f evidence/replays/%s_*" % c, cwd=VERIF)
    meta["checks"] = results
    sh("git checkout -- include test", cwd=wt)
    ok_demo = all(x == 0 for x in clean) and sum(1 for x in mutated if x != 0) >= 4
    ok_suite = skip_suite or ("100% tests passed" in suite)
    meta["confirmed"] = bool(ok_demo and ok_suite)
    meta["caught_by"] = sorted(c for c, r in results.items() if r["exit"] == 1 and r["violations"] > 0)
    notes = os.path.join(seed, "notes.md")
    if meta["confirmed"]:
        d = os.path.join(VERIF, "seeded", name)
        os.makedirs(d, exist_ok=True)
        shutil.copy(patch, os.path.join(d, "patch.diff"))
        shutil.copy(demo, os.path.join(d, os.path.basename(demo)))
        if os.path.exists(notes):
            shutil.copy(notes, os.path.join(d, "agent_notes.md"))
        mp = os.path.join(d, "meta.json")
        if os.path.exists(mp):
            # a re-run (after a check was strengthened or a run was disturbed): keep the earlier record
            with open(mp) as fh:
                old = json.load(fh)
            prev = old.pop("previous_runs", [])
            prev.append({"checks": old.get("checks"), "caught_by": old.get("caught_by"), "ran": old.get("ran")})
            meta["previous_runs"] = prev
            if skip_suite and "tests passed" in str(old.get("existing_suite_with_patch", "")):
                meta["existing_suite_with_patch"] = old["existing_suite_with_patch"] + " (from the first confirmation run)"
        with open(mp, "w") as fh:
            json.dump(meta, fh, indent=1)
    print(json.dumps(meta, indent=1))
    return 0


if __name__ == "__main__":
    sys.exit(main())
