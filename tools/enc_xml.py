"""C02 - independent OSM XML / osmChange writer (wiki.openstreetmap.org/wiki/OSM_XML, .../OsmChange,
XML 1.0).  Python standard library only; no XML library is used for writing.

Free choices of a producer that are exercised (all come from the TLC-exported choice vector):
root element osm / osmChange with create / modify / delete sections (several, repeated, empty), attribute
order, quote character, how special characters are written (named entity, decimal / hexadecimal character
reference, references for characters that would not need one), white space and line ends between
elements, empty-element tags versus start+end tags, XML declaration variants, comments and processing
instructions, elements and attributes this format does not define (must be ignored), bounds / bound,
order of child elements, default values written explicitly or left out, number notation of coordinates."""
import time

NAMED = {"&": "&amp;", "<": "&lt;", ">": "&gt;", '"': "&quot;", "'": "&apos;"}


class PlanError(Exception):
    pass


def esc_attr(s, style, quote):
    out = []
    for ch in s:
        o = ord(ch)
        must = ch in "&<" or ch == quote or o in (9, 10, 13)       # white space would be normalised to a blank
        if style == "over" and (ch.isalnum() or ch == " "):
            out.append("&#x%X;" % o if o % 2 else "&#%d;" % o)
        elif not must and not (ch in NAMED and style == "named_all"):
            out.append(ch)
        elif style in ("named", "named_all", "over") and ch in NAMED:
            out.append(NAMED[ch])
        elif style == "dec":
            out.append("&#%d;" % o)
        elif style == "hex":
            out.append("&#x%x;" % o)
        else:
            out.append("&#%d;" % o)
    return "".join(out)


def coord(v, style):
    """v: integer in 1e-7 degrees.  Exact decimal notation in several spellings."""
    neg = v < 0
    a = -v if neg else v
    ip, fp = divmod(a, 10000000)
    frac = "%07d" % fp
    if style == "min":
        frac = frac.rstrip("0")
        s = "%d" % ip + ("." + frac if frac else "")
    elif style == "long":
        s = "%d.%s00" % (ip, frac)
    elif style == "exp":               # scientific notation, exact
        digits = ("%d%s" % (ip, frac)).lstrip("0") or "0"
        e = len("%d" % ip) - 1 if ip else -(len(frac) - len(frac.lstrip("0")) + 1)
        mant = digits.rstrip("0") or "0"
        if mant == "0":
            s = "0e0"
        else:
            s = mant[0] + ("." + mant[1:] if len(mant) > 1 else "") + "e%d" % e
    else:
        s = "%d.%s" % (ip, frac)
    return ("-" if neg else "") + s


def iso(ts):
    return time.strftime("%Y-%m-%dT%H:%M:%SZ", time.gmtime(ts))


PERMS = {"canon": lambda l: l, "rev": lambda l: l[::-1], "rot": lambda l: l[len(l) // 2:] + l[:len(l) // 2],
         "swap": lambda l: [x for p in zip(l[1::2], l[0::2]) for x in p] + (l[-1:] if len(l) % 2 else [])}


class XmlWriter:
    def __init__(self, plan):
        self.p = plan
        self.q = "'" if plan.get("quote") == "sq" else '"'
        self.esc = plan.get("esc", "named")
        ws = plan.get("ws", "lf")
        self.nl = {"lf": "\n", "crlf": "\r\n", "none": "", "tabs": "\n\t\t", "cr": "\r"}[ws]
        self.ind = "" if ws == "none" else " "
        self.perm = PERMS[plan.get("attrs", "canon")]
        self.selfclose = plan.get("selfclose", True)
        self.cstyle = plan.get("coord", "fix")
        self.out = []

    def attrs(self, lst):
        lst = self.perm([(k, v) for k, v in lst if v is not None])
        sep = "\n    " if self.p.get("ws") == "tabs" else " "
        return "".join("%s%s=%s%s%s" % (sep, k, self.q, esc_attr(v, self.esc, self.q), self.q) for k, v in lst)

    def empty(self, name, lst, depth=1):
        a = self.attrs(lst)
        if self.selfclose:
            self.out.append("%s<%s%s/>%s" % (self.ind * depth, name, a, self.nl))
        else:
            self.out.append("%s<%s%s></%s >%s" % (self.ind * depth, name, a, name, self.nl))

    def obj(self, o, st, in_delete):
        omit = set(st.get("omit", []))
        t = {"n": "node", "w": "way", "r": "relation"}[o["t"]]
        a = [("id", str(o["id"]))]

        def opt(name, val, default, text):
            if val == default and name in omit:
                return
            a.append((name, text))
        opt("version", o["v"], 0, str(o["v"]))
        opt("timestamp", o["ts"], 0, iso(o["ts"]))
        opt("uid", o["uid"], 0, str(o["uid"]))
        opt("user", o["user"], "", o["user"])
        opt("changeset", o["cs"], 0, str(o["cs"]))
        if o["vis"]:
            if in_delete:
                raise PlanError("visible object in a delete section")
            if "visible" not in omit:
                a.append(("visible", "true"))
        else:
            if not in_delete or st.get("visattr"):
                a.append(("visible", "false"))
        if o["t"] == "n" and o["lon"] is not None:
            a.append(("lat", coord(o["lat"], self.cstyle)))
            a.append(("lon", coord(o["lon"], self.cstyle)))
        if st.get("unkattr"):
            a.append(("action", "modify"))
            a.append(("xmlns:foo", "http://example.org/foo"))
        kids = []
        refs = []
        if o["t"] == "w":
            refs = [("nd", [("ref", str(r))]) for r in o["refs"]]
        elif o["t"] == "r":
            refs = [("member", [("type", {"n": "node", "w": "way", "r": "relation"}[mt]), ("ref", str(ref)), ("role", role)])
                    for mt, ref, role in o["mems"]]
        tags = [("tag", [("k", k), ("v", v)]) for k, v in o["tags"]]
        order = st.get("kids", "refs_first")
        if order == "refs_first":
            kids = refs + tags
        elif order == "tags_first":
            kids = tags + refs
        else:
            kids = []
            for i in range(max(len(refs), len(tags))):
                kids += tags[i:i + 1] + refs[i:i + 1]
        d = 2 if self.in_section else 1
        if not kids and self.selfclose:
            self.empty(t, a, d)
            return
        self.out.append("%s<%s%s>%s" % (self.ind * d, t, self.attrs(a), self.nl))
        for name, al in kids:
            self.empty(name, al, d + 1)
        if st.get("comment"):
            self.out.append("<!-- <tag k='x' v='y'/> -->")
        self.out.append("%s</%s>%s" % (self.ind * d, t, self.nl))

    def run(self, objs):
        p = self.p
        decl = p.get("decl", "full")
        if decl == "full":
            self.out.append('<?xml version="1.0" encoding="UTF-8"?>' + self.nl)
        elif decl == "sq":
            self.out.append("<?xml version='1.0' encoding='utf-8' standalone='yes'?>" + (self.nl or "\n"))
        elif decl == "ver":
            self.out.append('<?xml version="1.0"?>' + self.nl)
        elif decl == "bom":
            self.out.append("﻿" + '<?xml version="1.0" encoding="UTF-8"?>' + self.nl)
        root = p.get("root", "osm")
        ra = [("version", "0.6"), ("generator", p.get("generator", "verif enc_xml"))]
        if p.get("rootextra"):
            ra += [("copyright", "OpenStreetMap & contributors"), ("attribution", "http://www.openstreetmap.org/copyright"),
                   ("license", "http://opendatacommons.org/licenses/odbl/1-0/")]
        self.out.append("<%s%s>%s" % (root, self.attrs(ra), self.nl))
        self.in_section = False
        sec = None
        if p.get("comments"):
            self.out.append("<!-- a comment with <node id='1'/> inside -->" + self.nl)
            self.out.append("<?some-pi with data?>" + self.nl)
        if p.get("unkel"):          # elements of other dialects (Overpass API): to be ignored
            self.out.append(' <note>The data included in this document is from www.openstreetmap.org.</note>' + self.nl)
            self.out.append(' <meta osm_base="2020-01-01T00:00:00Z"/>' + self.nl)
        b = p.get("bounds")
        if b:
            x1, y1, x2, y2 = b["box"]
            if b["kind"] == "bounds":
                self.empty("bounds", [("minlat", coord(y1, self.cstyle)), ("minlon", coord(x1, self.cstyle)),
                                      ("maxlat", coord(y2, self.cstyle)), ("maxlon", coord(x2, self.cstyle))])
            else:                    # the older spelling written by osmosis: ignored by readers that do not know it
                self.empty("bound", [("box", "%s,%s,%s,%s" % (coord(y1, "fix"), coord(x1, "fix"), coord(y2, "fix"), coord(x2, "fix"))),
                                     ("origin", "verif")])
        for st in p["steps"]:
            a = st["a"]
            if a == "open":
                if root != "osmChange" or sec:
                    raise PlanError("section")
                sec = st["sec"]
                self.in_section = True
                self.out.append("%s<%s%s>%s" % (self.ind, sec, self.attrs([("version", "0.6")] if st.get("secattr") else []), self.nl))
            elif a == "close":
                self.out.append("%s</%s>%s" % (self.ind, sec, self.nl))
                sec = None
                self.in_section = False
            elif a == "obj":
                self.obj(objs[st["i"]], st, sec == "delete")
            else:
                raise PlanError("step " + a)
        if sec:
            raise PlanError("unclosed section")
        self.out.append("</%s>%s" % (root, self.nl))
        if p.get("comments"):
            self.out.append("<!-- trailing comment -->\n")
        return "".join(self.out).encode("utf-8")


def encode(objs, plan):
    return XmlWriter(plan).run(objs)
