"""Shared machinery of the C05 and C07 checks (specs/ReaderPipeline.tla, harness/reader_pipeline.cpp).

design(ctx, cfgs)      exhaustive TLC runs of MCReaderPipeline (safety / liveness), in parallel
export(ctx, family)    TLC exports every configuration of a family with Expected(cfg)
run_cases(ctx, cases)  runs the real Reader on the cases, compares the consumer-visible log with the
                       spec's Expected(cfg) and validates the recorded traces against
                       ReaderPipelineTrace.tla"""
import json
import os
import random
import shutil
from concurrent.futures import ThreadPoolExecutor

import vlib

ACTIONS = ["RTCheck", "RTRead", "RTDClose", "RTEod", "RTPushChk", "RTPushEnq", "PGet", "PWait", "PFdRead", "PParse",
           "PFdNext", "PEnd", "PFail", "PEod", "PPushChk", "PPushEnq", "PDtor", "PShut0", "PShut1", "Worker",
           "CStart", "CHGet", "CRChk", "CRWait", "CRGet", "CEod1", "CEod2", "CREod", "CRJoin", "CClose0", "CClose1",
           "CClose2", "CClose3", "CDJoin", "CDtor0", "CDtor1", "CDFin"]


def design(ctx, cfgs, workers_each=5):
    """cfgs: list of (cfgfile, label, coverage?)"""
    if os.environ.get("VERIF_DEV_SKIP_DESIGN"):      # development only (mutation runs against a scratch tree)
        return
    def one(job):
        cfg, label, cov = job
        return job, vlib.tlc("MCReaderPipeline", cfg, workers=workers_each, coverage=cov, timeout=3000, tag=cfg[:-4],
                             java_opts=["-Xmx6g"])
    with ThreadPoolExecutor(max_workers=len(cfgs)) as ex:
        for (cfg, label, cov), r in ex.map(one, cfgs):
            vlib.tlc_ok(r, "ReaderPipeline design check " + cfg)
            if cov:
                vlib.require_actions(r, ACTIONS, "ReaderPipeline " + cfg)
            ctx.add_tlc(r, label)


def export(ctx, family):
    """Returns the exported configurations as compact JSON strings (tens of thousands of nested dicts would cost GBs)."""
    prefix = "GenRP_" if ctx.tier == "quick" else "GenRPT_"
    out = []
    r = vlib.tlc_ok(vlib.tlc("MCReaderPipeline", prefix + "%s.cfg" % family, workers=4, timeout=1500, tag="genrp_" + family,
                             keep_out=False, case_cb=lambda p: out.append(json.dumps(p, separators=(",", ":")))), "export " + family)
    ctx.add_tlc(r, "export of configurations with Expected(cfg): family " + family)
    if not out:
        raise vlib.ModelFailure("export of family %s produced no configuration" % family)
    return out


def parallel(*thunks):
    """run independent steps (TLC runs) concurrently; returns their results in order"""
    with ThreadPoolExecutor(max_workers=len(thunks)) as ex:
        futs = [ex.submit(t) for t in thunks]
        return [f.result() for f in futs]


def literal_reads_ok(c):
    """real files: a literal read() of the model delivers one model buffer; that is one real buffer only when every
    delivered block has exactly one nested buffer.  Scripts that only use readall before the end are always fine."""
    cfg = c["cfg"]
    sc = cfg["script"]
    lit = [i for i, op in enumerate(sc) if op == "read" and "readall" not in sc[:i]]
    if not lit:
        return True
    hdr = 1 if cfg.get("hdrblk") else 0
    return all(cfg["nest"][m - 1] == 1 for m in range(1 + hdr, cfg["n"] + 1) if m not in cfg["skip"])


def fault_key(c):
    f = c["cfg"]["fault"]
    return "%s@%s%s" % (f["k"], f["at"], "p" if f["pre"] else "")


def sample(cases, k, rnd, key=None, pred=None):
    """stratified sample: round-robin over the strata given by key.  cases: JSON strings (from export) or dicts;
    pred filters; returns dicts."""
    key = key or (lambda c: (fault_key(c), len(c["cfg"]["script"])))
    strata = {}
    n = 0
    for raw in cases:
        c = json.loads(raw) if isinstance(raw, str) else raw
        if pred and not pred(c):
            continue
        strata.setdefault(key(c), []).append(raw)
        n += 1
    for v in strata.values():
        rnd.shuffle(v)
    out = []
    keys = sorted(strata, key=str)
    i = 0
    while len(out) < k and keys:
        kk = keys[i % len(keys)]
        if strata[kk]:
            raw = strata[kk].pop()
            out.append(json.loads(raw) if isinstance(raw, str) else raw)
            i += 1
        else:
            keys.remove(kk)
    return out


TYPE_OF = {1: "node", 2: "way", 0: "relation"}


def mask_of(cfg):
    """entity mask that makes exactly the blocks in cfg.skip come back empty, or None if there is none"""
    hdr = 1 if cfg.get("hdrblk") else 0
    skipped = set(cfg["skip"]) - ({1} if hdr else set())
    excluded = set(TYPE_OF[m % 3] for m in skipped)
    for m in range(1 + hdr, cfg["n"] + 1):
        if m not in skipped and TYPE_OF[m % 3] in excluded:
            return None
    mask = [t for t in ("node", "way", "relation") if t not in excluded]
    return mask or None


def mk_case(i, mode, c, rnd, nseeds, **kw):
    cfg = dict(c["cfg"])
    qin, qout = rnd.choice([(2, 2), (2, 3), (3, 2), (20, 20), (2, 20)])
    cfg["maxIn"], cfg["maxOut"] = qin, qout
    d = {"id": "%s-%d" % (mode, i), "mode": mode, "cfg": cfg, "expected": c["expected"], "qin": qin, "qout": qout,
         "qwork": rnd.choice([2, 10]), "pool_threads": rnd.choice([1, 2, 4]),
         "seeds": [rnd.randrange(1, 1 << 30) for _ in range(nseeds)],
         "sched_prob": rnd.choice([15, 35, 60]), "sched_max_us": rnd.choice([50, 200, 600]),
         "budget_s": 12}        # watchdog per execution (a normal execution takes milliseconds)
    d.update(kw)
    if "qin" in kw or "qout" in kw:
        cfg["maxIn"], cfg["maxOut"] = d["qin"], d["qout"]
    return d


def build():
    return vlib.build("reader_pipeline", "reader_pipeline.cpp", san=False, opt="-O1")


def validate_traces(ctx, files, tag):
    """files: list of (case, path).  Concatenates and validates with TLC; returns list of (case, what) rejected."""
    workdir = os.path.join(vlib.BUILD, "run", ctx.prop)
    os.makedirs(workdir, exist_ok=True)
    cat = os.path.join(workdir, "trace_%s.ndjson" % tag)
    index = []   # (first line, last line, case)
    n = 0
    with open(cat, "w") as out:
        for case, path in files:
            if not os.path.exists(path):
                continue
            with open(path) as fh:
                lines = fh.read().splitlines()
            if not lines:
                continue
            index.append((n + 1, n + len(lines), case, path))
            out.write("\n".join(lines) + "\n")
            n += len(lines)
    if n == 0:
        return [], 0, 0

    def run(t):
        r = vlib.tlc("ReaderPipelineTrace", "ReaderPipelineTrace.cfg", workers=1, env={"TRACE": cat}, timeout=1500,
                     java_opts=["-Xmx4g", "-Dtlc2.tool.queue.IStateQueue=StateDeque"], tag="rptrace_" + t)
        maxl, total = 0, 0
        for line in r.out:
            if line.startswith('<<"MAXL"'):
                parts = line.strip("<>").split(",")
                maxl, total = int(parts[1]), int(parts[2])
        if r.error:
            raise vlib.ModelFailure("trace validation TLC error: %s" % r.error[:2000])
        accepted = bool(r.violation and "NotAccepted" in r.violation)
        return accepted, maxl, total, r
    accepted, maxl, total, r = run(tag)
    if not accepted and not (r.violation and "NotAccepted" not in r.violation):
        accepted, maxl, total, r = run(tag + "b")        # re-validate once on the same artefact
    ctx.states += r.distinct
    ctx.transitions += r.generated
    if accepted:
        return [], len(index), n
    with open(cat) as fh:
        lines = fh.read().splitlines()
    bad = None
    for a, b, case, path in index:
        if a <= maxl <= b or a <= maxl + 1 <= b:
            bad = (a, b, case)
    if bad is None:
        bad = index[-1][:3]
    a, b, case = bad
    around = lines[max(a - 1, maxl - 6):min(b, maxl + 2)]
    if r.violation and "NotAccepted" not in r.violation:
        what = "invariant violated while following the recorded execution: " + r.violation[:500]
    else:
        what = ("recorded execution of the real Reader is not a behaviour of ReaderPipeline.tla: longest matched prefix ends at "
                "line %d (execution spans lines %d-%d); events around: %s" % (maxl, a, b, " | ".join(around)))
    # the executions after the rejected one in this file have not been looked at: validate the rest separately
    rest = [(c, p) for aa, bb, c, p in index if aa > b]
    more, cnt, _ = ([], 0, 0)
    if rest:
        more, cnt, _ = validate_traces(ctx, rest, tag + "r")
    return [(case, what, lines[a - 1:b][-300:])] + more, len([1 for aa, bb, c, p in index if bb < a]) + cnt, n


def sig_of(case, kind):
    c = case["cfg"]
    return "%s mode=%s fault=%s pool=%s n=%d nest=%s skip=%s script=%s" % (
        kind, case["mode"], fault_key(case), c["pool"], c["n"], c["nest"], c["skip"], ",".join(c["script"]))


def run_cases(ctx, cases, tag="t"):
    binary = build()
    workdir = os.path.join(vlib.BUILD, "run", ctx.prop)
    shutil.rmtree(workdir, ignore_errors=True)
    os.makedirs(workdir, exist_ok=True)
    nproc = min(8, max(1, len(cases) // 4))
    # every shard gets its own scratch directory (argv[1]) for the files it writes
    shards = [cases[i::nproc] for i in range(nproc)]
    results = []

    def run_shard(k):
        sh = shards[k]
        d = os.path.join(workdir, "s%d" % k)
        os.makedirs(d, exist_ok=True)
        for c in sh:
            if c["mode"] not in ("real", "realxmlq"):
                c["trace"] = os.path.join(d, c["id"] + ".ndjson")
        res = vlib.replay_cases(binary, sh, nproc=1, timeout=1200, args=[d])
        bad = vlib_validate(ctx, sh, res, "%s%d" % (tag, k))
        return res, bad
    with ThreadPoolExecutor(max_workers=nproc) as ex:
        for res, bad in ex.map(run_shard, range(len(shards))):
            results.append((res, bad))
    byid = {c["id"]: c for c in cases}
    nexec = 0
    nvalid = 0
    for res, (rejected, nok, nlines) in results:
        for r in res:
            c = byid[r["id"]]
            nexec += len(c["seeds"])
            if r.get("ok"):
                continue
            if "crash" in r:
                kind = "hang" if r["crash"] == "timeout" else r["crash"]
                what = "real Reader: %s (%s)" % (kind, r.get("stderr", "")[-500:])
                ctx.violation(sig_of(c, kind), {"case": c, "result": r}, what)
            else:
                what = "%s: exp=%s got=%s" % (r.get("note", ""), json.dumps(r.get("exp"))[:400], json.dumps(r.get("got"))[:600])
                ctx.violation(sig_of(c, "hang" if r.get("note", "").startswith("hang") else "log"), {"case": c, "result": r}, what)
        for case, what, lines in rejected:
            ctx.violation(sig_of(case, "trace"), {"case": case, "trace": lines}, what)
        nvalid += nok
        ctx.extra["trace_events_validated"] = ctx.extra.get("trace_events_validated", 0) + nlines
    return nexec, nvalid


def vlib_validate(ctx, shard, res, tag):
    ok_ids = set(r["id"] for r in res if r.get("ok"))
    files = [(c, c["trace"]) for c in shard if "trace" in c and c["id"] in ok_ids]
    return validate_traces(ctx, files, tag)
