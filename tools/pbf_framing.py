#!/usr/bin/env python3
"""Independent parser for the framing of an OSM PBF file (fileformat.proto / osmformat.proto), written against the
published format description only: hand-written varint / zigzag / length-delimited decoding, zlib from the standard
library, a literal implementation of the LZ4 block format.  It does not share code with libosmium or protozero.

parse(path) walks   4-byte length | BlobHeader | Blob   to the end of the file, checks every format limit and the
internal consistency of every PrimitiveBlock, and returns what it saw:

  {"header": {"required": [...], "optional": [...], "writingprogram": str, "bbox": [left, right, top, bottom] | None},
   "blocks": [{"kind": "dense"|"nodes"|"ways"|"relations", "count": n, "raw": bytes, "strings": n,
               "ids": [...] | None}, ...],
   "problems": [str, ...]}         # empty list = every limit and consistency rule holds

Limits checked (OSM wiki, PBF Format): BlobHeader length <= 64 KiB; Blob (datasize) and its uncompressed content
(raw_size / raw) <= 32 MiB; raw_size equals the decompressed length; first blob OSMHeader, all others OSMData; string
table index 0 is the empty string; every string index used is inside the string table of its own block; dense-node
arrays have one entry per id; delta coded ids start from 0 in every block; at most 8000 entities per block (the
Osmosis / Osmium convention the property names); one kind of entity per block."""
import struct
import sys
import zlib

MAX_BLOB_HEADER = 64 * 1024
MAX_BLOB = 32 * 1024 * 1024
MAX_ENTITIES = 8000
DEEP_LIMIT = 3 * 1024 * 1024      # packed arrays longer than this are counted, not decoded element by element


class FormatError(Exception):
    pass


def varint(buf, pos, end):
    result = 0
    shift = 0
    while True:
        if pos >= end:
            raise FormatError("varint runs past the end of its message")
        b = buf[pos]
        pos += 1
        result |= (b & 0x7f) << shift
        if not b & 0x80:
            return result, pos
        shift += 7
        if shift > 63:
            raise FormatError("varint longer than 10 bytes")


def zigzag(v):
    return (v >> 1) ^ -(v & 1)


def int64(v):
    return v - (1 << 64) if v >= (1 << 63) else v


def fields(buf, pos, end):
    """Yield (field number, wire type, value or (start, end)) for one message."""
    while pos < end:
        key, pos = varint(buf, pos, end)
        fn, wt = key >> 3, key & 7
        if wt == 0:
            v, pos = varint(buf, pos, end)
            yield fn, wt, v
        elif wt == 2:
            ln, pos = varint(buf, pos, end)
            if pos + ln > end:
                raise FormatError("length-delimited field %d runs past the end of its message" % fn)
            yield fn, wt, (pos, pos + ln)
            pos += ln
        elif wt == 1:
            yield fn, wt, (pos, pos + 8)
            pos += 8
        elif wt == 5:
            yield fn, wt, (pos, pos + 4)
            pos += 4
        else:
            raise FormatError("unsupported wire type %d" % wt)
    if pos != end:
        raise FormatError("message ends inside a field")


def packed(buf, span, signed=False):
    pos, end = span
    out = []
    while pos < end:
        v, pos = varint(buf, pos, end)
        out.append(zigzag(v) if signed else v)
    return out


_HIGH = bytes(range(0x80, 0x100))


def count_packed(buf, span):
    """Number of varints in a packed field without decoding them (one byte without continuation bit each)."""
    pos, end = span
    return len(bytes(buf[pos:end]).translate(None, _HIGH))


def lz4_block(src, raw_size):
    """LZ4 block format: token (literal length nibble, match length nibble), literals, 2-byte offset, match."""
    out = bytearray()
    pos, end = 0, len(src)
    while pos < end:
        token = src[pos]
        pos += 1
        ll = token >> 4
        if ll == 15:
            while True:
                b = src[pos]
                pos += 1
                ll += b
                if b != 255:
                    break
        out += src[pos:pos + ll]
        pos += ll
        if pos >= end:
            break
        off = src[pos] | (src[pos + 1] << 8)
        pos += 2
        if off == 0 or off > len(out):
            raise FormatError("lz4: invalid match offset")
        ml = (token & 15) + 4
        if (token & 15) == 15:
            while True:
                b = src[pos]
                pos += 1
                ml += b
                if b != 255:
                    break
        start = len(out) - off
        if off >= ml:
            out += out[start:start + ml]
        else:
            for i in range(ml):
                out.append(out[start + i])
        if len(out) > raw_size:
            raise FormatError("lz4: output longer than raw_size")
    return bytes(out)


def parse_blob(buf, problems, idx):
    raw = None
    raw_size = None
    comp = None
    data = None
    for fn, wt, v in fields(buf, 0, len(buf)):
        if fn == 1 and wt == 2:
            raw = bytes(buf[v[0]:v[1]])
            comp = "none"
        elif fn == 2 and wt == 0:
            raw_size = v
        elif fn == 3 and wt == 2:
            comp, data = "zlib", bytes(buf[v[0]:v[1]])
        elif fn == 6 and wt == 2:
            comp, data = "lz4", bytes(buf[v[0]:v[1]])
        elif fn in (4, 5, 7) and wt == 2:
            comp, data = "other", None
    if comp is None:
        problems.append("blob %d: no data" % idx)
        return None, None, comp
    if comp == "none":
        if len(raw) > MAX_BLOB:
            problems.append("blob %d: raw data of %d bytes exceeds the 32 MiB limit" % (idx, len(raw)))
        return raw, len(raw), comp
    if raw_size is None:
        problems.append("blob %d: compressed blob without raw_size" % idx)
        return None, None, comp
    if raw_size > MAX_BLOB:
        problems.append("blob %d: raw_size %d exceeds the 32 MiB limit" % (idx, raw_size))
    if comp == "zlib":
        raw = zlib.decompress(data)
    elif comp == "lz4":
        if raw_size > DEEP_LIMIT * 2:
            return None, raw_size, comp          # too slow in pure python; the size limits above are still checked
        raw = lz4_block(data, raw_size)
    else:
        return None, raw_size, comp
    if len(raw) != raw_size:
        problems.append("blob %d: raw_size %d but the data decompresses to %d bytes" % (idx, raw_size, len(raw)))
    return raw, raw_size, comp


def parse_header_block(raw):
    h = {"required": [], "optional": [], "writingprogram": None, "bbox": None}
    for fn, wt, v in fields(raw, 0, len(raw)):
        if fn == 1 and wt == 2:
            box = {}
            for f2, w2, v2 in fields(raw, v[0], v[1]):
                if w2 == 0:
                    box[f2] = zigzag(v2)
            h["bbox"] = [box.get(1), box.get(2), box.get(3), box.get(4)]
        elif fn == 4 and wt == 2:
            h["required"].append(raw[v[0]:v[1]].decode("utf-8", "replace"))
        elif fn == 5 and wt == 2:
            h["optional"].append(raw[v[0]:v[1]].decode("utf-8", "replace"))
        elif fn == 16 and wt == 2:
            h["writingprogram"] = raw[v[0]:v[1]].decode("utf-8", "replace")
    return h


def check_indices(name, idxs, nstrings, problems, where):
    bad = [i for i in idxs if i < 0 or i >= nstrings]
    if bad:
        problems.append("%s: %s index %d outside the string table of the block (%d strings)" % (where, name, bad[0], nstrings))


def parse_info(raw, span, nstrings, problems, where):
    for fn, wt, v in fields(raw, span[0], span[1]):
        if fn == 5 and wt == 0:
            check_indices("user_sid", [v], nstrings, problems, where)


def parse_primitive_block(raw, problems, idx, want_ids=True):
    where = "block %d" % idx
    strings = []
    groups = []
    for fn, wt, v in fields(raw, 0, len(raw)):
        if fn == 1 and wt == 2:
            for f2, w2, v2 in fields(raw, v[0], v[1]):
                if f2 == 1 and w2 == 2:
                    strings.append(v2)
        elif fn == 2 and wt == 2:
            groups.append(v)
    ns = len(strings)
    if ns == 0 or strings[0][0] != strings[0][1]:
        problems.append("%s: string table index 0 is not the empty string" % where)
    kinds = []
    count = 0
    ids = []
    for g in groups:
        for fn, wt, v in fields(raw, g[0], g[1]):
            if wt != 2:
                continue
            if fn == 2:      # DenseNodes
                kinds.append("dense")
                did = dlat = dlon = dkv = None
                dinfo = {}
                for f2, w2, v2 in fields(raw, v[0], v[1]):
                    if w2 != 2:
                        continue
                    if f2 == 1:
                        did = v2
                    elif f2 == 5:
                        for f3, w3, v3 in fields(raw, v2[0], v2[1]):
                            if w3 == 2:
                                dinfo[f3] = v3
                    elif f2 == 8:
                        dlat = v2
                    elif f2 == 9:
                        dlon = v2
                    elif f2 == 10:
                        dkv = v2
                deltas = packed(raw, did, signed=True) if did else []
                n = len(deltas)
                count += n
                cur = 0
                for d in deltas:          # delta coding starts from 0 in every block
                    cur += d
                    ids.append(cur)
                for nm, sp in (("lat", dlat), ("lon", dlon)):
                    m = count_packed(raw, sp) if sp else 0
                    if m != n:
                        problems.append("%s: dense %s array has %d entries for %d ids" % (where, nm, m, n))
                for f3, sp in dinfo.items():
                    m = count_packed(raw, sp)
                    if m not in (0, n):
                        problems.append("%s: DenseInfo field %d has %d entries for %d ids" % (where, f3, m, n))
                    if f3 == 5 and sp[1] - sp[0] <= DEEP_LIMIT:      # user_sid, delta coded from 0
                        cur = 0
                        sids = []
                        for d in packed(raw, sp, signed=True):
                            cur += d
                            sids.append(cur)
                        check_indices("dense user_sid", sids, ns, problems, where)
                if dkv and dkv[1] - dkv[0] <= DEEP_LIMIT:
                    kv = packed(raw, dkv)
                    if kv.count(0) != n:
                        problems.append("%s: dense keys_vals has %d delimiters for %d nodes" % (where, kv.count(0), n))
                    check_indices("dense keys_vals", kv, ns, problems, where)
            elif fn in (1, 3, 4):
                kind = {1: "nodes", 3: "ways", 4: "relations"}[fn]
                kinds.append(kind)
                count += 1
                oid = None
                for f2, w2, v2 in fields(raw, v[0], v[1]):
                    if f2 == 1 and w2 == 0:
                        oid = zigzag(v2) if fn == 1 else int64(v2)
                    elif f2 in (2, 3) and w2 == 2 and v2[1] - v2[0] <= DEEP_LIMIT:
                        check_indices("keys/vals", packed(raw, v2), ns, problems, where)
                    elif f2 == 4 and w2 == 2:
                        parse_info(raw, v2, ns, problems, where)
                    elif fn == 4 and f2 == 8 and w2 == 2 and v2[1] - v2[0] <= DEEP_LIMIT:
                        check_indices("roles_sid", packed(raw, v2), ns, problems, where)
                if oid is None:
                    problems.append("%s: %s without id" % (where, kind))
                ids.append(oid)
            elif fn == 5:
                kinds.append("changesets")
    kset = sorted(set(kinds))
    if len(kset) > 1:
        problems.append("%s: more than one kind of entity in a block: %s" % (where, kset))
    if count > MAX_ENTITIES:
        problems.append("%s: %d entities in one block (more than %d)" % (where, count, MAX_ENTITIES))
    if count == 0:
        problems.append("%s: empty block" % where)
    return {"kind": kset[0] if kset else "none", "count": count, "raw": len(raw), "strings": ns,
            "ids": ids if want_ids else None}


def parse(path, want_ids=True, fcomp="none"):
    """fcomp: file compression around the whole PBF file ("none", "gzip", "bzip2"); removed with the standard library."""
    problems = []
    header = None
    blocks = []
    with open(path, "rb") as fh:
        data = fh.read()
    if fcomp == "gzip":
        import gzip
        data = gzip.decompress(data)
    elif fcomp == "bzip2":
        import bz2
        data = bz2.decompress(data)
    view = memoryview(data)
    pos = 0
    idx = 0
    try:
        while pos < len(data):
            if pos + 4 > len(data):
                problems.append("file ends inside a BlobHeader length")
                break
            (hl,) = struct.unpack(">I", data[pos:pos + 4])
            pos += 4
            if hl > MAX_BLOB_HEADER:
                problems.append("blob %d: BlobHeader of %d bytes exceeds the 64 KiB limit" % (idx, hl))
                break
            btype = None
            datasize = None
            for fn, wt, v in fields(view, pos, pos + hl):
                if fn == 1 and wt == 2:
                    btype = bytes(view[v[0]:v[1]]).decode("ascii", "replace")
                elif fn == 3 and wt == 0:
                    datasize = v
            pos += hl
            if datasize is None or datasize <= 0:
                problems.append("blob %d: BlobHeader without datasize" % idx)
                break
            if datasize > MAX_BLOB:
                problems.append("blob %d: datasize %d exceeds the 32 MiB limit" % (idx, datasize))
            if pos + datasize > len(data):
                problems.append("blob %d: file ends inside the blob" % idx)
                break
            want = "OSMHeader" if idx == 0 else "OSMData"
            if btype != want:
                problems.append("blob %d: type %r where %r is required" % (idx, btype, want))
            raw, raw_size, comp = parse_blob(view[pos:pos + datasize], problems, idx)
            pos += datasize
            if raw is not None:
                if idx == 0:
                    header = parse_header_block(raw)
                else:
                    blocks.append(dict(parse_primitive_block(raw, problems, idx, want_ids), comp=comp))
            elif idx > 0:
                blocks.append({"kind": "unparsed", "count": None, "raw": raw_size, "strings": None, "ids": None, "comp": comp})
            idx += 1
    except (FormatError, zlib.error, IndexError) as ex:
        problems.append("blob %d: %s: %s" % (idx, type(ex).__name__, ex))
    if header is None and not problems:
        problems.append("no OSMHeader blob")
    return {"header": header, "blocks": blocks, "problems": problems}


if __name__ == "__main__":
    import json
    for p in sys.argv[1:]:
        r = parse(p, want_ids=False)
        print(json.dumps(r, indent=1))
