#!/opt/veriftools/pyvenv/bin/python
import json, sys, glob, jsonschema
jsonschema.validate(json.load(open('/verif/MANIFEST.json')), json.load(open('/root/.vp/MANIFEST.schema.json')))
n = 0
bad = 0
schema = json.load(open('/root/.vp/EVIDENCE.schema.json'))
for f in sorted(glob.glob('/verif/evidence/C*.json')):
    try:
        jsonschema.validate(json.load(open(f)), schema); n += 1
    except jsonschema.exceptions.ValidationError as e:
        bad += 1
        print("INVALID", f, e.message[:200], list(e.absolute_path))
print("schemas ok: manifest + %d evidence files, %d invalid" % (n, bad))
sys.exit(1 if bad else 0)
