#!/opt/veriftools/pyvenv/bin/python
import json, sys, glob, jsonschema
jsonschema.validate(json.load(open('/verif/MANIFEST.json')), json.load(open('/root/.vp/MANIFEST.schema.json')))
n = 0
for f in glob.glob('/verif/evidence/C*.json'):
    jsonschema.validate(json.load(open(f)), json.load(open('/root/.vp/EVIDENCE.schema.json'))); n += 1
print("schemas ok: manifest + %d evidence files" % n)
