#!/usr/bin/env python3
"""Shared machinery for the /verif checks: TLC runner + output parser, harness build
cache keyed by the hash of /repo's current working tree, case/replay plumbing,
known-findings matcher and evidence writer.  Standard library only."""
import hashlib
import json
import os
import re
import shutil
import subprocess
import sys
import time

VERIF = os.path.dirname(os.path.dirname(os.path.abspath(__file__)))
REPO = os.environ.get("VERIF_REPO", "/repo")
SPECS = os.path.join(VERIF, "specs")
HARNESS = os.path.join(VERIF, "harness")
BUILD = os.path.join(VERIF, "build")
EVID = os.path.join(VERIF, "evidence")
REPLAYS = os.path.join(EVID, "replays")
JAR = "/opt/veriftools/tla/tla2tools.jar:/opt/veriftools/tla/CommunityModules-deps.jar"
NCPU = os.cpu_count() or 4


class ModelFailure(Exception):
    """The machinery itself failed (spec does not parse, an action never taken, build
    error in the harness on an unchanged API...).  Exit status 2, never a VIOLATION."""


def log(*a):
    print(*a, flush=True)


# --------------------------------------------------------------------------- TLC

_RE_STATES = re.compile(r"^(\d+) states generated, (\d+) distinct states found, (\d+) states left on queue")
_RE_COV = re.compile(r"^<(\w+) line (\d+), col (\d+) to line (\d+), col (\d+) of module (\w+)(?: \([\d ]+\))?>: (\d+):(\d+)")
_RE_SIMSTATES = re.compile(r"The number of states generated: (\d+)")


class TlcResult:
    def __init__(self):
        self.rc = None
        self.out = []
        self.generated = 0
        self.distinct = 0
        self.cases = []          # parsed JSON payloads of <<"CASE", "...">> lines
        self.coverage = {}       # action -> (distinct, taken)
        self.violation = None    # text of the violated invariant/property, if any
        self.error = None        # other TLC error text
        self.wall = 0.0
        self.cmd = ""


def _unq(s):
    # TLC prints a string value with \" and \\ escapes
    return json.loads('"' + s + '"')


def tlc(module, cfg, workers=None, simulate=None, depth=None, seed=None, coverage=False,
        env=None, timeout=1100, java_opts=None, tag=None, deadlock=True, extra=None,
        case_cb=None, keep_out=True, dump_dot=None, cwd=None):
    """Run TLC on specs/<module>.tla with specs/<cfg>.  Returns TlcResult.  Raises
    ModelFailure for parse errors / TLC crashes; invariant violations are returned."""
    cwd = cwd or SPECS
    tag = tag or (module + "_" + os.path.splitext(os.path.basename(cfg))[0])
    meta = os.path.join(BUILD, "tlc", tag + "_" + str(os.getpid()))
    shutil.rmtree(meta, ignore_errors=True)
    os.makedirs(meta, exist_ok=True)
    # VERIF_TLC_WORKERS / VERIF_TLC_XMX cap the resources of every TLC run (shared machine, development)
    cap = int(os.environ.get("VERIF_TLC_WORKERS", "0") or "0")
    if workers is None:
        workers = NCPU
    if cap:
        workers = max(1, min(workers, cap))
    cmd = ["java", "-XX:+UseParallelGC", "-XX:ParallelGCThreads=%d" % max(2, min(8, workers))]
    xmx = os.environ.get("VERIF_TLC_XMX")
    cmd += [o for o in (java_opts or ["-Xmx8g"]) if not (xmx and o.startswith("-Xmx"))]
    if xmx:
        cmd += ["-Xmx" + xmx]
    cmd += ["-cp", JAR, "tlc2.TLC", "-metadir", meta, "-config", cfg]
    cmd += ["-workers", str(workers)]
    if simulate is not None:
        cmd += ["-simulate", "num=%d" % simulate]
        if depth is not None:
            cmd += ["-depth", str(depth)]
    if seed is not None:
        cmd += ["-seed", str(seed)]
    if coverage:
        cmd += ["-coverage", "1"]
    if not deadlock:
        cmd += ["-deadlock"]
    if dump_dot:
        cmd += ["-dump", "dot,actionlabels", dump_dot]
    if extra:
        cmd += extra
    cmd += [module + ".tla"]
    e = dict(os.environ)
    if env:
        e.update(env)
    r = TlcResult()
    r.cmd = " ".join(cmd)
    t0 = time.time()
    p = subprocess.Popen(["timeout", str(timeout)] + cmd, cwd=cwd, env=e, stdout=subprocess.PIPE,
                         stderr=subprocess.STDOUT, text=True, errors="replace")
    in_err = False
    errbuf = []
    for line in p.stdout:
        line = line.rstrip("\n")
        if line.startswith('<<"CASE", "') and line.endswith('">>'):
            try:
                payload = json.loads(_unq(line[len('<<"CASE", "'):-3]))
            except Exception as ex:  # interleaved output -> machinery failure
                raise ModelFailure("unparseable CASE line from TLC: %r (%s)" % (line[:200], ex))
            if case_cb:
                case_cb(payload)
            else:
                r.cases.append(payload)
            continue
        if keep_out:
            r.out.append(line)
        m = _RE_STATES.match(line)
        if m:
            r.generated, r.distinct = int(m.group(1)), int(m.group(2))
        m = _RE_SIMSTATES.search(line)
        if m:
            r.generated = max(r.generated, int(m.group(1)))
        m = _RE_COV.match(line)
        if m:
            name = m.group(1)
            d, t = int(m.group(7)), int(m.group(8))
            od, ot = r.coverage.get(name, (0, 0))
            r.coverage[name] = (od + d, ot + t)
        if line.startswith("Error:"):
            in_err = True
        if in_err:
            errbuf.append(line)
            if len(errbuf) > 60:
                in_err = False
    r.rc = p.wait()
    r.wall = time.time() - t0
    shutil.rmtree(meta, ignore_errors=True)
    txt = "\n".join(errbuf)
    if r.rc == 124:
        r.error = "timeout after %ss" % timeout
    elif "violated" in txt or "Deadlock reached" in txt \
            or "Action property" in txt:
        r.violation = txt
    elif r.rc != 0:
        r.error = txt or ("TLC exit %d: %s" % (r.rc, "\n".join(r.out[-15:])))
    return r


def tlc_ok(res, what):
    """Design check must pass on the spec: anything else is a failure of the model."""
    if res.error:
        raise ModelFailure("%s: TLC error: %s\ncmd: %s" % (what, res.error[:3000], res.cmd))
    if res.violation:
        raise ModelFailure("%s: spec-level property violated (the model itself is wrong or the "
                           "design is broken):\n%s\ncmd: %s" % (what, res.violation[:3000], res.cmd))
    return res


def require_actions(res, names, what):
    """Vacuity guard: every named action must have been taken at least once."""
    missing = [n for n in names if res.coverage.get(n, (0, 0))[1] == 0]
    if missing:
        raise ModelFailure("%s: actions never taken in the model: %s" % (what, missing))


def parallel(*thunks, max_workers=None):
    """Run independent steps (TLC runs, harness builds) concurrently; results in order; first exception re-raised."""
    from concurrent.futures import ThreadPoolExecutor
    with ThreadPoolExecutor(max_workers=max_workers or len(thunks)) as ex:
        futs = [ex.submit(t) for t in thunks]
        return [f.result() for f in futs]


# --------------------------------------------------------------------------- build cache

_tree_hash = None


def repo_tree_hash():
    global _tree_hash
    if _tree_hash is None:
        h = hashlib.sha256()
        root = os.path.join(REPO, "include")
        for d, dn, fn in sorted(os.walk(root)):
            dn.sort()
            for f in sorted(fn):
                p = os.path.join(d, f)
                h.update(p.encode())
                with open(p, "rb") as fh:
                    h.update(fh.read())
        _tree_hash = h.hexdigest()
    return _tree_hash


BASE_FLAGS = ["-std=c++14", "-g", "-DOSMIUM_VERIF", "-I" + os.path.join(REPO, "include"),
              "-I" + HARNESS, "-Wno-deprecated-declarations"]
SAN_FLAGS = ["-fsanitize=address,undefined", "-fno-sanitize-recover=undefined", "-fno-omit-frame-pointer"]
LIBS = ["-lz", "-lbz2", "-lexpat", "-llz4", "-pthread"]


def build(name, src, flags=None, san=True, opt="-O1", ndebug=True, libs=None, cxx="g++", timeout=900):
    """Build harness/<src> against /repo's CURRENT working tree.  Cached by content hash."""
    srcp = os.path.join(HARNESS, src)
    fl = list(BASE_FLAGS) + [opt] + (["-DNDEBUG"] if ndebug else []) + (SAN_FLAGS if san else []) + (flags or [])
    h = hashlib.sha256()
    h.update(repo_tree_hash().encode())
    for p in [srcp] + sorted(os.path.join(HARNESS, "common", f) for f in os.listdir(os.path.join(HARNESS, "common"))):
        with open(p, "rb") as fh:
            h.update(fh.read())
    h.update(" ".join([cxx] + fl + (libs or LIBS)).encode())
    key = h.hexdigest()[:20]
    outdir = os.path.join(BUILD, "bin")
    os.makedirs(outdir, exist_ok=True)
    # binaries built against another tree (VERIF_REPO=<scratch worktree>) get their own name, so that checks running
    # concurrently against different trees do not evict each other's binaries
    if os.path.abspath(REPO) != "/repo":
        name = "%s@%s" % (name, hashlib.sha256(os.path.abspath(REPO).encode()).hexdigest()[:8])
    out = os.path.join(outdir, "%s-%s" % (name, key))
    if os.path.exists(out):
        return out
    for old in os.listdir(outdir):
        if old.startswith(name + "-"):
            try:
                os.unlink(os.path.join(outdir, old))
            except OSError:
                pass
    cmd = [cxx] + fl + [srcp, "-o", out + ".tmp%d" % os.getpid()] + (libs or LIBS)
    t0 = time.time()
    p = subprocess.run(cmd, stdout=subprocess.PIPE, stderr=subprocess.STDOUT, text=True, timeout=timeout)
    if p.returncode != 0:
        raise BuildFailure(name, p.stdout[-6000:])
    os.rename(out + ".tmp%d" % os.getpid(), out)
    log("[build] %s in %.1fs" % (name, time.time() - t0))
    return out


class BuildFailure(ModelFailure):
    def __init__(self, name, out):
        super().__init__("harness %s does not build against the current tree:\n%s" % (name, out))
        self.name = name
        self.out = out


def build_many(specs):
    """specs: list of dict(name=, src=, **kw). Build in parallel (threads; compilers are subprocesses)."""
    from concurrent.futures import ThreadPoolExecutor
    repo_tree_hash()
    with ThreadPoolExecutor(max_workers=min(len(specs), NCPU)) as ex:
        futs = [ex.submit(build, **s) for s in specs]
        return [f.result() for f in futs]


SAN_ENV = {"ASAN_OPTIONS": "detect_leaks=0:abort_on_error=0:exitcode=97:allocator_may_return_null=1",
           "UBSAN_OPTIONS": "print_stacktrace=1:halt_on_error=1:exitcode=98"}


def run_harness(binary, args=(), stdin_text=None, timeout=600, env=None):
    e = dict(os.environ)
    e.update(SAN_ENV)
    if env:
        e.update(env)
    try:
        p = subprocess.run([binary] + list(args), input=stdin_text, stdout=subprocess.PIPE, stderr=subprocess.PIPE,
                           text=True, errors="replace", timeout=timeout, env=e)
        return p.returncode, p.stdout, p.stderr
    except subprocess.TimeoutExpired as ex:
        so = ex.stdout.decode(errors="replace") if isinstance(ex.stdout, bytes) else (ex.stdout or "")
        se = ex.stderr.decode(errors="replace") if isinstance(ex.stderr, bytes) else (ex.stderr or "")
        return -999, so, se + "\n[harness timeout after %ss]" % timeout


def replay_cases(binary, cases, nproc=None, timeout=900, env=None, args=(), max_crashes=40):
    """Feed NDJSON cases (list of dicts each with 'id') to a replay harness on stdin, sharded over
    processes.  The harness prints one NDJSON result per case ({"id":..,"ok":bool,...}).  A shard
    that dies (sanitizer report, crash) is bisected by re-running its cases one by one so the failing
    case is identified.  Returns list of result dicts (same order not guaranteed)."""
    from concurrent.futures import ThreadPoolExecutor
    nproc = nproc or NCPU
    if not cases:
        return []
    shards = [cases[i::nproc] for i in range(nproc)]
    shards = [s for s in shards if s]

    crash_budget = [max_crashes]

    per_case = [None]     # observed seconds per case (from shards that made progress), to size re-run timeouts

    def run_shard(shard, depth=0):
        if crash_budget[0] <= 0:
            # the check already fails; do not spend minutes re-running thousands of crashing cases one by one
            return [{"id": c["id"], "ok": True, "skipped": True} for c in shard]
        text = "".join(json.dumps(c, separators=(",", ":")) + "\n" for c in shard)
        # re-runs after a failure (depth > 0) get a time limit derived from the observed speed: a hanging case must not
        # cost the full shard timeout again and again
        tmo = timeout
        if depth > 0:
            est = per_case[0] if per_case[0] is not None else 2.0
            tmo = min(timeout, 30 + int(25 * est * len(shard)) + (90 if len(shard) == 1 else 0))
        t0 = time.time()
        rc, so, se = run_harness(binary, args, stdin_text=text, timeout=tmo, env=env)
        dt = time.time() - t0
        res = []
        seen = set()
        for line in so.splitlines():
            if not line.startswith("{"):
                continue
            try:
                d = json.loads(line)
            except ValueError:
                continue
            if "id" in d:
                res.append(d)
                seen.add(d["id"])
        if seen and rc != -999:
            pc = dt / len(seen)
            per_case[0] = pc if per_case[0] is None else max(per_case[0], pc)
        elif seen and per_case[0] is None:
            per_case[0] = max(0.05, min(dt, 60.0) / len(seen))
        if rc != 0 or len(seen) != len(shard):
            rest = [c for c in shard if c["id"] not in seen]
            # the harness's own per-case watchdog (VH_CASE_TIMEOUT) reported the case as "hang" and left: that record stands
            hang = rc == 3 and res and str(res[-1].get("note", "")).startswith("hang")
            if hang and not rest:
                return res
            if len(shard) == 1:
                kind = "timeout" if rc == -999 else ("sanitizer" if rc in (97, 98) or "Sanitizer" in se or "runtime error" in se else "crash")
                # one more run of this single case with step markers to learn where it died
                rc2, so2, se2 = run_harness(binary, args, stdin_text=text, timeout=tmo, env=dict(env or {}, VH_STEPS="1"))
                marks = [l for l in se2.splitlines() if l.startswith("STEP ")]
                step = int(marks[-1].split()[1]) if marks else -1
                head = "\n".join([l for l in se.splitlines() if "ERROR" in l or l.lstrip().startswith("#")][:8])
                crash_budget[0] -= 1
                return [{"id": shard[0]["id"], "ok": False, "crash": kind, "rc": rc, "step": step,
                         "stderr": (head + "\n...\n" + se[-1500:])[:4000]}]
            # the first unseen case is the prime suspect; run the unseen ones individually
            if not rest:
                return res
            res2 = list(res)
            first = rest[0]
            res2 += run_shard([first], depth + 1)
            if len(rest) > 1:
                res2 += run_shard(rest[1:], depth + 1)
            return res2
        return res

    out = []
    with ThreadPoolExecutor(max_workers=len(shards)) as ex:
        for r in ex.map(run_shard, shards):
            out += r
    return out


# --------------------------------------------------------------------------- known findings

def load_known():
    p = os.path.join(VERIF, "known_findings.json")
    if not os.path.exists(p):
        return []
    with open(p) as fh:
        d = json.load(fh)
    return [f for f in d.get("findings", []) if f.get("status", "open") == "open"]


# --------------------------------------------------------------------------- context / evidence

class Ctx:
    def __init__(self, prop, tier, seed, level="model_checking"):
        self.prop = prop
        self.tier = tier
        self.seed = seed
        self.level = level
        self.t0 = time.time()
        self.states = 0
        self.transitions = 0
        self.traces = 0
        self.evaluations = 0
        self.nontrivial = 0
        self.rule = ""
        self.samples = []
        self.extra = {}
        self.assumptions = []
        self.violations = []     # (signature, replay_payload, what)
        self.known_hits = {}     # finding id -> count
        self.known = [f for f in load_known() if f.get("property") == prop]
        self.tlc_runs = []
        self.exhaustive = None

    def add_tlc(self, res, label, constants=None):
        self.states += res.distinct
        self.transitions += res.generated
        d = {"label": label, "distinct": res.distinct, "generated": res.generated, "wall_s": round(res.wall, 1)}
        if constants:
            d["constants"] = constants
        if res.coverage:
            d["actions_taken"] = {k: v[1] for k, v in sorted(res.coverage.items())}
        self.tlc_runs.append(d)

    def sample(self, s, cap=6):
        if len(self.samples) < cap:
            self.samples.append(s)

    def violation(self, signature, payload, what):
        """Record a failing case.  signature: stable short string identifying the failing
        input/history, matched against known_findings.json entries (regex 'signature')."""
        for f in self.known:
            if re.search(f["signature"], signature):
                self.known_hits.setdefault(f["id"], [f, 0])
                self.known_hits[f["id"]][1] += 1
                return False
        self.violations.append((signature, payload, what))
        return True

    def finish(self):
        os.makedirs(REPLAYS, exist_ok=True)
        wall = time.time() - self.t0
        for fid, (f, n) in sorted(self.known_hits.items()):
            log("KNOWN-FINDING: property=%s %s [%s] (%d matching case(s))" % (self.prop, f["what"], fid, n))
        # known findings that are listed but did not show up are still announced only when hit
        paths = []
        for i, (sig, payload, what) in enumerate(self.violations[:20]):
            h = hashlib.sha256(sig.encode()).hexdigest()[:10]
            path = os.path.join(REPLAYS, "%s_%s.json" % (self.prop, h))
            with open(path, "w") as fh:
                json.dump({"property": self.prop, "signature": sig, "what": what, "case": payload,
                           "seed": self.seed, "tier": self.tier}, fh, indent=1, default=str)
            paths.append(path)
            log("VIOLATION property=%s replay=%s" % (self.prop, path))
            log("  what: %s" % (what[:600],))
        cov = {
            "states": self.states, "transitions": self.transitions,
            "traces_validated_against_impl": self.traces,
            "evaluations": self.evaluations, "distinct_nontrivial": self.nontrivial,
            "rule": self.rule, "samples": self.samples or ["(no case was run)"],
            "tlc_runs": self.tlc_runs,
        }
        if self.exhaustive is not None:
            cov["exhaustive"] = self.exhaustive
        cov.update(self.extra)
        ev = {"property_id": self.prop, "tier": self.tier, "seed": self.seed, "level": self.level,
              "coverage": cov, "assumptions": self.assumptions, "wall_s": round(wall, 2),
              "violations": len(self.violations),
              "known_findings_hit": {k: v[1] for k, v in self.known_hits.items()}}
        os.makedirs(EVID, exist_ok=True)
        tmp = os.path.join(EVID, ".%s.json.tmp" % self.prop)
        with open(tmp, "w") as fh:
            json.dump(ev, fh, indent=1, default=str)
        os.replace(tmp, os.path.join(EVID, "%s.json" % self.prop))
        log("[%s] tier=%s seed=%d states=%d transitions=%d impl_traces=%d evaluations=%d violations=%d wall=%.1fs"
            % (self.prop, self.tier, self.seed, self.states, self.transitions, self.traces, self.evaluations,
               len(self.violations), wall))
        return 1 if self.violations else 0
