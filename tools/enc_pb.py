"""C02 - independent, specification-derived wire primitives (python3 standard library only).

Protocol Buffers wire format (developers.google.com/protocol-buffers/docs/encoding): base-128
varints, zigzag, the four wire types, packed / unpacked / split repeated scalars.
LZ4 block format (lz4_Block_format.md): a block is a list of sequences; the last sequence consists
of literals only - so ANY byte string is a conformant block when written as one literal-only
sequence (token high nibble = min(len, 15), 255-run length bytes, literals).  A second mode emits
real match sequences (offset + match length) for long byte runs so that the decoder's copy branch
is exercised as well.
zlib streams come from the standard library (levels 0 = stored blocks, 1, 9)."""
import struct
import zlib

MASK64 = (1 << 64) - 1


def varint(n):
    """unsigned base-128 varint; negative numbers are written as 64 bit two's complement (10 bytes)"""
    n &= MASK64
    out = bytearray()
    while True:
        b = n & 0x7f
        n >>= 7
        if n:
            out.append(b | 0x80)
        else:
            out.append(b)
            return bytes(out)


def varint_padded(n, length):
    """non-canonical but legal varint: continuation bytes with zero payload (length <= 10)"""
    n &= MASK64
    out = bytearray()
    for i in range(length):
        b = n & 0x7f
        n >>= 7
        out.append(b | (0x80 if i < length - 1 else 0))
    if n:
        raise ValueError("value does not fit")
    return bytes(out)


def zigzag(n):
    return ((n << 1) ^ (n >> 63)) & MASK64


def svarint(n):
    return varint(zigzag(n))


VARINT, FIXED64, LEN, FIXED32 = 0, 1, 2, 5


def key(field, wt):
    return varint((field << 3) | wt)


def f_varint(field, n):
    return key(field, VARINT) + varint(n)


def f_svarint(field, n):
    return key(field, VARINT) + svarint(n)


PAD_LEN = [0]        # > 0: lengths of length-delimited records are written as varints of exactly that many bytes


def f_bytes(field, b):
    if isinstance(b, str):
        b = b.encode("utf-8")
    n = varint_padded(len(b), PAD_LEN[0]) if PAD_LEN[0] else varint(len(b))
    return key(field, LEN) + n + bytes(b)


def f_fixed32(field, n):
    return key(field, FIXED32) + struct.pack("<I", n & 0xffffffff)


def f_fixed64(field, n):
    return key(field, FIXED64) + struct.pack("<Q", n & MASK64)


def f_repeated(field, values, enc=varint, mode="packed"):
    """repeated scalar field.  packed: one LEN record; unpacked: one VARINT record per element;
    split: the packed payload spread over two LEN records (parsers must concatenate)."""
    values = list(values)
    if mode == "packed":
        if not values:
            return b""
        return f_bytes(field, b"".join(enc(v) for v in values))
    if mode == "packed_empty":          # like packed, but an empty list is written as an empty record
        return f_bytes(field, b"".join(enc(v) for v in values))
    if mode == "unpacked":
        return b"".join(key(field, VARINT) + enc(v) for v in values)
    if mode == "split":
        if len(values) < 2:
            return f_repeated(field, values, enc, "packed")
        h = len(values) // 2
        return f_bytes(field, b"".join(enc(v) for v in values[:h])) + f_bytes(field, b"".join(enc(v) for v in values[h:]))
    raise ValueError(mode)


def unknown_fields(kind, base=1000):
    """fields no .proto of the OSM formats defines; every wire type once"""
    if kind == "none":
        return []
    return [f_varint(base, 77), f_bytes(base + 1, b"ignored bytes \x00\xff"), f_fixed32(base + 2, 0xdeadbeef),
            f_fixed64(base + 3, 0x0123456789abcdef), f_varint(base + 4, -5)]


# ----------------------------------------------------------------------------- LZ4 block

def _lz4_len(n):
    out = bytearray()
    while n >= 255:
        out.append(255)
        n -= 255
    out.append(n)
    return bytes(out)


def lz4_literal_only(data):
    n = len(data)
    tok = min(n, 15) << 4
    out = bytearray([tok])
    if n >= 15:
        out += _lz4_len(n - 15)
    out += data
    return bytes(out)


def lz4_with_matches(data):
    """greedy run-length matcher: a run of >= 8 equal bytes becomes literal + match(offset 1).
    End-of-block rules: the last 5 bytes are literals, the last match starts >= 12 bytes before the end."""
    n = len(data)
    out = bytearray()
    i = 0
    lit_start = 0
    limit = n - 12
    while i < limit:
        j = i + 1
        while j < n - 5 and data[j] == data[i]:
            j += 1
        run = j - i
        if run >= 8:
            # literals data[lit_start .. i] (including the first byte of the run), then match of run-1 bytes, offset 1
            lits = data[lit_start:i + 1]
            mlen = run - 1
            tok = (min(len(lits), 15) << 4) | min(mlen - 4, 15)
            out.append(tok)
            if len(lits) >= 15:
                out += _lz4_len(len(lits) - 15)
            out += lits
            out += struct.pack("<H", 1)
            if mlen - 4 >= 15:
                out += _lz4_len(mlen - 4 - 15)
            i = j
            lit_start = j
        else:
            i = j
    out += lz4_literal_only(data[lit_start:])
    return bytes(out)


def lz4_ref_decode(block):
    """reference decoder used by the encoder self test"""
    out = bytearray()
    i = 0
    n = len(block)
    while i < n:
        tok = block[i]
        i += 1
        ll = tok >> 4
        if ll == 15:
            while True:
                b = block[i]
                i += 1
                ll += b
                if b != 255:
                    break
        out += block[i:i + ll]
        i += ll
        if i >= n:
            break
        off = block[i] | (block[i + 1] << 8)
        i += 2
        ml = tok & 15
        if ml == 15:
            while True:
                b = block[i]
                i += 1
                ml += b
                if b != 255:
                    break
        ml += 4
        for _ in range(ml):
            out.append(out[-off])
    return bytes(out)


def zlib_stream(data, level):
    return zlib.compress(data, level)


if __name__ == "__main__":
    import os
    assert varint(300) == b"\xac\x02" and varint(-1) == b"\xff" * 9 + b"\x01"
    assert svarint(-1) == b"\x01" and svarint(1) == b"\x02" and svarint(-(1 << 63)) == b"\xff" * 9 + b"\x01"
    for d in (b"", b"a", b"x" * 14, b"x" * 15, b"ab" * 200, os.urandom(1000), b"abc" + b"\0" * 5000 + b"tail of the block", b"q" * 300):
        assert lz4_ref_decode(lz4_literal_only(d)) == d
        assert lz4_ref_decode(lz4_with_matches(d)) == d, d[:20]
    print("enc_pb self test ok")
