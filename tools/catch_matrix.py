#!/usr/bin/env python3
"""Prints the catch matrix of the seeded changes under /verif/seeded as a markdown table (for DESIGN.md section 9.5)."""
import glob
import json
import os
HERE = os.path.dirname(os.path.dirname(os.path.abspath(__file__)))
rows = []
for d in sorted(glob.glob(os.path.join(HERE, "seeded", "*"))):
    mp = os.path.join(d, "meta.json")
    if not os.path.exists(mp):
        continue
    m = json.load(open(mp))
    checks = m.get("checks", {})
    ran = ", ".join("%s:%s" % (c, "CAUGHT(%d)" % r["violations"] if r["exit"] == 1 and r["violations"] else ("exit %d" % r["exit"]))
                    for c, r in sorted(checks.items()))
    prev = m.get("previous_runs") or []
    first_missed = [p for p in prev if not (p.get("caught_by") or [])]
    if first_missed:
        ran += " (first run: not caught - check strengthened, see 9.2/9.3)"
    elif prev:
        ran += " (re-run after a disturbed first run)"
    rows.append((os.path.basename(d), m["property"], "yes" if m.get("confirmed") else "NO", ", ".join(m.get("caught_by", [])) or "-", ran,
                 m.get("needs_to_manifest", "")[:230]))
print("| seeded change | breaks | confirmed (suite passes, demo fails with / passes without) | caught by | quick checks run against it | what it needs to manifest |")
print("|---|---|---|---|---|---|")
for r in rows:
    print("| %s | %s | %s | %s | %s | %s |" % r)
print()
print("%d seeded changes, %d caught by at least one check" % (len(rows), sum(1 for r in rows if r[3] != "-")))
