"""C02 - independent OPL writer (osmcode.org/opl-file-format).  Python standard library only.

Free choices exercised (from the TLC-exported choice vector): order of the fields of a line, fields with
a default value written or left out, one / several blanks or a tab between fields, blank at the end of a
line, LF / CRLF / CR line ends, empty lines and '#' lines between objects, last line with or without a
line end, and the spelling of %-escapes (number and case of hex digits, escaping of characters that would
not need it)."""
import time

from enc_xml import coord

MUST = set(" \n\r\t,=@%")


class PlanError(Exception):
    pass


def esc(s, style):
    out = []
    for ch in s:
        o = ord(ch)
        must = ch in MUST or o < 0x21 or o == 0x7f
        over = style.startswith("over") and (ch.isalpha())
        if not (must or over):
            out.append(ch)
            continue
        if style in ("min", "overmin"):
            out.append("%%%x%%" % o)
        elif style in ("upper", "over"):
            out.append("%%%04X%%" % o)
        elif style == "wide":
            out.append("%%%06x%%" % o)
        else:
            out.append("%%%04x%%" % o)
    return "".join(out)


def iso(ts):
    return time.strftime("%Y-%m-%dT%H:%M:%SZ", time.gmtime(ts))


PERMS = {"canon": lambda l: l, "rev": lambda l: l[::-1], "rot": lambda l: l[len(l) // 2:] + l[:len(l) // 2],
         "swap": lambda l: [x for p in zip(l[1::2], l[0::2]) for x in p] + (l[-1:] if len(l) % 2 else [])}


def line(o, st, plan):
    style = plan.get("esc", "std")
    cstyle = plan.get("coord", "fix")
    omit = set(st.get("omit", []))
    f = []

    def opt(name, val, default, text):
        if val == default and name in omit:
            return
        f.append(text)
    opt("v", o["v"], 0, "v%d" % o["v"])
    opt("d", o["vis"], True, "d" + ("V" if o["vis"] else "D"))
    opt("c", o["cs"], 0, "c%d" % o["cs"])
    opt("t", o["ts"], 0, "t" + (iso(o["ts"]) if o["ts"] else ""))
    opt("i", o["uid"], 0, "i%d" % o["uid"])
    opt("u", o["user"], "", "u" + esc(o["user"], style))
    opt("T", o["tags"], [], "T" + ",".join(esc(k, style) + "=" + esc(v, style) for k, v in o["tags"]))
    if o["t"] == "n":
        if o["lon"] is None:
            if "x" not in omit:
                f += ["x", "y"]
        else:
            f += ["x" + coord(o["lon"], cstyle), "y" + coord(o["lat"], cstyle)]
    elif o["t"] == "w":
        opt("N", o["refs"], [], "N" + ",".join("n%d" % r for r in o["refs"]))
    else:
        opt("M", o["mems"], [], "M" + ",".join("%s%d@%s" % (mt, ref, esc(role, style)) for mt, ref, role in o["mems"]))
    f = PERMS[st.get("order", plan.get("order", "canon"))](f)
    sep = {"sp": " ", "sp2": "   ", "tab": "\t", "mix": " \t "}[plan.get("sep", "sp")]
    s = "%s%d" % (o["t"], o["id"])
    if f:
        s += sep + sep.join(f)
    if plan.get("trail"):
        s += " "
    return s


def encode(objs, plan):
    nl = {"lf": "\n", "crlf": "\r\n", "cr": "\r"}[plan.get("nl", "lf")]
    lines = []
    for st in plan["steps"]:
        a = st["a"]
        if a == "obj":
            lines.append(line(objs[st["i"]], st, plan))
        elif a == "empty":
            lines.append("")
        elif a == "comment":
            lines.append("# n1 v1 dV c1 t i1 u T x1 y1")
        else:
            raise PlanError("step " + a)
    txt = nl.join(lines)
    if lines and plan.get("finalnl", True):
        txt += nl
    return txt.encode("utf-8")
